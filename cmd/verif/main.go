// Command verif is the orchestrator of the coapsim checks: it rebuilds the
// simulator test binary from /repo's current working tree (build tag verif),
// fans run indices out to one worker process per core, merges what they
// report, applies the known-findings file, writes the evidence file and is the
// only thing that prints VIOLATION / KNOWN-FINDING lines.
//
// Exit codes: 0 property held on everything explored; 1 violation not listed
// in known_findings.json; 2 build / watchdog / harness trouble.
package main

import (
	"bytes"
	"encoding/json"
	"fmt"
	"os"
	"os/exec"
	"path/filepath"
	"regexp"
	"runtime"
	"sort"
	"strconv"
	"strings"
	"sync"
	"syscall"
	"time"
)

// verifDir is the root of the verification tree: the directory above the bin/ directory the
// executable lives in (so that a snapshot of /verif works on itself), else /verif.
var verifDir = func() string {
	if v := os.Getenv("VERIF_DIR"); v != "" {
		return v
	}
	if exe, err := os.Executable(); err == nil {
		root := filepath.Dir(filepath.Dir(exe))
		if st, err := os.Stat(filepath.Join(root, "sim", "go.mod")); err == nil && !st.IsDir() {
			return root
		}
	}
	return "/verif"
}()

type replayFile struct {
	Property    string   `json:"property"`
	Rule        string   `json:"rule"`
	Sig         string   `json:"sig"`
	Scenario    string   `json:"scenario"`
	Engine      int      `json:"engine"`
	RepoTree    string   `json:"repo_tree,omitempty"`
	Seed        uint64   `json:"seed"`
	RunIndex    uint64   `json:"run_index"`
	Racy        bool     `json:"racy"`
	Tape        []uint32 `json:"tape"`
	Violation   string   `json:"violation"`
	Log         []string `json:"log"`
	Minimised   bool     `json:"minimised"`
	ShrinkRuns  int      `json:"shrink_runs"`
	OrigTapeLen int      `json:"orig_tape_len"`
}

type sample struct {
	RunIndex uint64   `json:"run_index"`
	Scenario string   `json:"scenario"`
	Tape     []uint32 `json:"tape"`
	Log      []string `json:"log"`
}

type workerOut struct {
	Property    string         `json:"property"`
	From        uint64         `json:"from"`
	To          uint64         `json:"to"`
	Runs        int            `json:"runs"`
	NonTrivial  int            `json:"nontrivial"`
	Hashes      []uint64       `json:"hashes"`
	AllHashes   int            `json:"all_hashes"`
	Faults      map[string]int `json:"faults"`
	Probes      map[string]int `json:"probes"`
	Scenarios   map[string]int `json:"scenarios"`
	SimTimeNs   int64          `json:"sim_time_ns"`
	Phases      int64          `json:"phases"`
	Racy        int            `json:"racy"`
	Undrainable int            `json:"undrainable"`
	Samples     []sample       `json:"samples"`
	Violations  []replayFile   `json:"violations"`
	Unrepro     []unrepro      `json:"unreproduced"`
	Real        []string       `json:"real"`
	Stub        []string       `json:"stub"`
	WallS       float64        `json:"wall_s"`
	ExhaustN    int            `json:"exhaust_n"`
}

type unrepro struct {
	Rule     string `json:"rule"`
	Sig      string `json:"sig"`
	RunIndex uint64 `json:"run_index"`
	Racy     bool   `json:"racy"`
	Msg      string `json:"msg"`
	Attempts int    `json:"attempts"`
}

type propInfo struct {
	ID       string   `json:"id"`
	Title    string   `json:"title"`
	Rule     string   `json:"rule"`
	Quick    int      `json:"quick"`
	Thorough int      `json:"thorough"`
	Assume   []string `json:"assume"`
	ExhaustN int      `json:"exhaust_n"`
	Scen     []string `json:"scenarios"`
	Require  []string `json:"require"`
}

type knownFinding struct {
	Property string `json:"property"`
	Rule     string `json:"rule"`
	Sig      string `json:"sig"`
	Status   string `json:"status"` // known | fixed
	Commit   string `json:"commit,omitempty"`
	What     string `json:"what"`
}

func goEnv() []string {
	env := os.Environ()
	env = append(env, "GOFLAGS=-mod=mod", "GOPROXY=off", "GOSUMDB=off", "GOTOOLCHAIN=local", "CGO_ENABLED=0")
	return env
}

func die(code int, format string, a ...any) {
	fmt.Fprintf(os.Stderr, format+"\n", a...)
	os.Exit(code)
}

// build compiles the simulator test binary from the current /repo tree.
func build(tag string) string {
	out := filepath.Join(verifDir, ".build", "sim-"+tag+".test")
	_ = os.MkdirAll(filepath.Dir(out), 0o755)
	// the module needs /repo's go.sum entries; keep ours a superset
	overlay := makeOverlay(tag)
	cmd := exec.Command("go1.26.8", "test", "-c", "-tags", "verif", "-overlay", overlay, "-o", out, ".")
	cmd.Dir = filepath.Join(verifDir, "sim")
	cmd.Env = goEnv()
	var buf bytes.Buffer
	cmd.Stdout, cmd.Stderr = &buf, &buf
	if err := cmd.Run(); err != nil {
		die(2, "BUILD FAILED (harness trouble, not a violation):\n%s", buf.String())
	}
	return out
}

// autoYieldFiles get a scheduling point inserted after every non-deferred Unlock()/RUnlock() at build time
// (go build -overlay; /repo itself is not touched). A change that opens a new check-then-act gap between two
// critical sections is thereby explorable by the cooperative scheduler even though nobody placed a yield there.
var autoYieldFiles = []string{
	"pkg/sync/map.go", "pkg/cache/cache.go", "net/client/limitParallelRequests/limitParallelRequests.go",
	"udp/client/mutexmap.go", "net/client/receivedMessageReader.go", "mux/router.go",
}

var unlockRe = regexp.MustCompile(`^(\s*)[A-Za-z0-9_.\[\]()]+\.(RUnlock|Unlock)\(\)\s*$`)

// In pkg/cache/cache.go every operation is a composition of calls to the embedded map: a scheduling point is also
// inserted after every such call that is a statement at the top level of a function (one tab deep: never inside a
// callback, which may run under the map's lock), so that "look up, then decide later" is explorable however it is written.
var (
	afterCallFiles = map[string]bool{"pkg/cache/cache.go": true}
	afterCallRe    = regexp.MustCompile(`^\t[^\t/].*\bc\.[A-Za-z.]+\(.*\)\s*$`)
	afterCallSkip  = regexp.MustCompile(`^\t(return|defer|go|if|for|switch|func)\b`)
	closeCallRe    = regexp.MustCompile(`^\t\}\)\s*$`)
)

func makeOverlay(tag string) string {
	dir := filepath.Join(verifDir, ".build", "overlay-"+tag)
	_ = os.RemoveAll(dir)
	_ = os.MkdirAll(dir, 0o755)
	repl := map[string]string{}
	for i, rel := range autoYieldFiles {
		srcPath := filepath.Join("/repo", rel)
		b, err := os.ReadFile(srcPath)
		if err != nil {
			continue
		}
		src := string(b)
		if !strings.Contains(src, "pkg/verifhook\"") {
			continue // only files that already import the hook package
		}
		lines := strings.Split(src, "\n")
		var out []string
		n := 0
		for ln, l := range lines {
			out = append(out, l)
			if m := unlockRe.FindStringSubmatch(l); m != nil && !strings.Contains(l, "defer") {
				n++
				out = append(out, fmt.Sprintf("%sverifhook.Yield(\"auto.unlock\", %d)", m[1], (i+1)*10000+ln+1))
			} else if afterCallFiles[rel] && ((afterCallRe.MatchString(l) && !afterCallSkip.MatchString(l)) || closeCallRe.MatchString(l)) {
				n++
				out = append(out, fmt.Sprintf("\tverifhook.Yield(\"auto.aftercall\", %d)", (i+1)*10000+ln+1))
			}
		}
		if n == 0 {
			continue
		}
		dst := filepath.Join(dir, strings.ReplaceAll(rel, "/", "__"))
		if err := os.WriteFile(dst, []byte(strings.Join(out, "\n")), 0o644); err != nil {
			die(2, "cannot write overlay file: %v", err)
		}
		repl[srcPath] = dst
	}
	ov := filepath.Join(dir, "overlay.json")
	b, _ := json.Marshal(map[string]any{"Replace": repl})
	if err := os.WriteFile(ov, b, 0o644); err != nil {
		die(2, "cannot write overlay: %v", err)
	}
	return ov
}

func repoTree() string {
	out, err := exec.Command("git", "-C", "/repo", "rev-parse", "HEAD").Output()
	if err != nil {
		return ""
	}
	h := strings.TrimSpace(string(out))
	st, _ := exec.Command("git", "-C", "/repo", "status", "--porcelain").Output()
	if len(bytes.TrimSpace(st)) > 0 {
		h += "+dirty"
	}
	return h
}

func info(bin, prop string) *propInfo {
	cmd := exec.Command(bin, "-test.run", "^TestInfo$", "-prop", prop)
	cmd.Env = append(goEnv(), "GOMAXPROCS=1")
	out, err := cmd.Output()
	if err != nil {
		die(2, "cannot query property info for %s: %v\n%s", prop, err, out)
	}
	i := bytes.IndexByte(out, '{')
	j := bytes.LastIndexByte(out, '}')
	if i < 0 || j < i {
		die(2, "bad info output for %s: %s", prop, out)
	}
	var pi propInfo
	if err := json.Unmarshal(out[i:j+1], &pi); err != nil {
		die(2, "bad info json for %s: %v", prop, err)
	}
	return &pi
}

func loadKnown() []knownFinding {
	b, err := os.ReadFile(filepath.Join(verifDir, "known_findings.json"))
	if err != nil {
		return nil
	}
	var k []knownFinding
	if err := json.Unmarshal(b, &k); err != nil {
		die(2, "known_findings.json does not parse: %v", err)
	}
	return k
}

type workerResult struct {
	out      *workerOut
	exitCode int
	stderr   string
	from, to uint64
	status   string
}

func runWorker(bin, prop string, seed, from, to uint64, dir string, n int, budgetS int) workerResult {
	outPath := filepath.Join(dir, fmt.Sprintf("w%03d.json", n))
	status := filepath.Join(dir, fmt.Sprintf("w%03d.status", n))
	args := []string{"-test.run", "^TestWorker$", "-test.timeout", "0", "-prop", prop, "-seed", strconv.FormatUint(seed, 10),
		"-from", strconv.FormatUint(from, 10), "-to", strconv.FormatUint(to, 10), "-out", outPath, "-status", status}
	if budgetS > 0 {
		args = append(args, "-budget_s", strconv.Itoa(budgetS))
	}
	cmd := exec.Command(bin, args...)
	cmd.Env = append(goEnv(), "GOMAXPROCS=1", "GODEBUG=asyncpreemptoff=1")
	var stderr bytes.Buffer
	cmd.Stderr = &stderr
	cmd.Stdout = &stderr
	res := workerResult{from: from, to: to, status: status}
	if errS := cmd.Start(); errS != nil {
		res.exitCode = 2
		res.stderr = "cannot start worker: " + errS.Error()
		return res
	}
	// OS-level supervision: the in-process watchdog cannot run when a goroutine spins without a scheduling point
	// (one P, no asynchronous preemption). If the worker's status file (index of the run in progress) has not
	// changed for stallS seconds, ask the runtime for a goroutine dump (SIGQUIT) and end the process.
	done := make(chan error, 1)
	go func() { done <- cmd.Wait() }()
	const stallS = 75
	last, lastChange := "", time.Now()
	var err error
	stalled := false
wait:
	for {
		select {
		case err = <-done:
			break wait
		case <-time.After(time.Second):
			b, _ := os.ReadFile(status)
			if cur := string(b); cur != last {
				last, lastChange = cur, time.Now()
			} else if time.Since(lastChange) > stallS*time.Second {
				stalled = true
				_ = cmd.Process.Signal(syscall.SIGQUIT)
				select {
				case err = <-done:
				case <-time.After(10 * time.Second):
					_ = cmd.Process.Kill()
					err = <-done
				}
				break wait
			}
		}
	}
	if stalled {
		res.exitCode = 4
		res.stderr = stderr.String()
		return res
	}
	if err != nil {
		res.exitCode = 1
		if ee, ok := err.(*exec.ExitError); ok {
			res.exitCode = ee.ExitCode()
		}
		res.stderr = stderr.String()
		return res
	}
	b, err := os.ReadFile(outPath)
	if err != nil {
		res.exitCode = 2
		res.stderr = "worker wrote no output: " + err.Error() + "\n" + stderr.String()
		return res
	}
	var wo workerOut
	if err := json.Unmarshal(b, &wo); err != nil {
		res.exitCode = 2
		res.stderr = "worker output does not parse: " + err.Error()
		return res
	}
	res.out = &wo
	return res
}

func check(prop, tier string, seed uint64, runsOverride int, workers int) int {
	start := time.Now()
	bin := build(prop)
	pi := info(bin, prop)
	total := pi.Quick
	budgetS := 0
	if tier == "thorough" {
		total = pi.Thorough
		budgetS = 1500
	} else {
		budgetS = 150
	}
	if v, err := strconv.Atoi(os.Getenv("VERIF_BUDGET_S")); err == nil && v > 0 {
		budgetS = v
	}
	if runsOverride > 0 {
		total = runsOverride
	}
	if total < pi.ExhaustN {
		total = pi.ExhaustN
	}
	if workers <= 0 {
		workers = runtime.NumCPU()
	}
	chunks := workers * 4
	if total < chunks*8 {
		chunks = (total + 7) / 8
		if chunks < 1 {
			chunks = 1
		}
	}
	dir, err := os.MkdirTemp(filepath.Join(verifDir, ".build"), "run-"+prop+"-")
	if err != nil {
		die(2, "cannot create scratch dir: %v", err)
	}
	defer os.RemoveAll(dir)

	type job struct {
		n        int
		from, to uint64
	}
	jobs := make(chan job, chunks)
	per := uint64((total + chunks - 1) / chunks)
	nj := 0
	for f := uint64(0); f < uint64(total); f += per {
		t := f + per
		if t > uint64(total) {
			t = uint64(total)
		}
		jobs <- job{nj, f, t}
		nj++
	}
	close(jobs)
	var mu sync.Mutex
	var results []workerResult
	var wg sync.WaitGroup
	deadline := start.Add(time.Duration(budgetS) * time.Second)
	for w := 0; w < workers; w++ {
		wg.Add(1)
		go func() {
			defer wg.Done()
			for j := range jobs {
				left := int(time.Until(deadline).Seconds())
				if left < 1 {
					left = 1
				}
				r := runWorker(bin, prop, seed, j.from, j.to, dir, j.n, left)
				mu.Lock()
				results = append(results, r)
				mu.Unlock()
			}
		}()
	}
	wg.Wait()
	sort.Slice(results, func(i, j int) bool { return results[i].from < results[j].from })

	// merge
	agg := workerOut{Property: prop, Faults: map[string]int{}, Probes: map[string]int{}, Scenarios: map[string]int{}}
	hashes := map[uint64]struct{}{}
	real, stub := map[string]bool{}, map[string]bool{}
	var viols []replayFile
	unrep := []unrepro{}
	trouble := 0
	for _, r := range results {
		if r.out == nil {
			if r.exitCode == 3 && spinningInLibrary(r.stderr) == "" {
				if where := blockedOnLibraryLock(r.stderr); where != "" {
					// every goroutine of the run is blocked and at least one of them waits, inside library code, for a
					// library mutex: a lock that is never released (the harness never parks a goroutine that holds one)
					idx := r.from
					if b, err := os.ReadFile(r.status); err == nil {
						if v, err := strconv.ParseUint(strings.TrimSpace(string(b)), 10, 64); err == nil {
							idx = v
						}
					}
					viols = append(viols, replayFile{Property: prop, Rule: prop + ".DEADLOCK", Sig: "library-lock-never-released", Seed: seed, RunIndex: idx,
						Violation: "all goroutines of the run are blocked; library code waits for a mutex that nobody will release: " + where, Log: strings.Split(tail(r.stderr, 6000), "\n"), Engine: 1})
					continue
				}
				fmt.Fprintf(os.Stderr, "HARNESS TROUBLE: worker [%d,%d) hit the real-time watchdog (wedge or hang inside the simulator):\n%s\n", r.from, r.to, tail(r.stderr, 6000))
				trouble++
				continue
			}
			if r.exitCode == 4 || r.exitCode == 3 {
				// no run completed for more than a minute of real time and the in-process watchdog did not fire: some
				// goroutine is spinning. If it spins in library code (frames under /repo/), that is the library hanging.
				idx := r.from
				if b, err := os.ReadFile(r.status); err == nil {
					if v, err := strconv.ParseUint(strings.TrimSpace(string(b)), 10, 64); err == nil {
						idx = v
					}
				}
				if where := spinningInLibrary(r.stderr); where != "" {
					viols = append(viols, replayFile{Property: prop, Rule: prop + ".HANG", Sig: "library-goroutine-spins", Seed: seed, RunIndex: idx,
						Violation: "a library goroutine runs without ever reaching a scheduling point (endless loop): " + where, Log: strings.Split(tail(r.stderr, 6000), "\n"), Engine: 1})
				} else {
					fmt.Fprintf(os.Stderr, "HARNESS TROUBLE: worker [%d,%d) made no progress for more than a minute (index %d) and was ended:\n%s\n", r.from, r.to, idx, tail(r.stderr, 6000))
					trouble++
				}
				continue
			}
			// crash: find the run index and confirm in a fresh process
			idx := r.from
			if b, err := os.ReadFile(r.status); err == nil {
				if v, err := strconv.ParseUint(strings.TrimSpace(string(b)), 10, 64); err == nil {
					idx = v
				}
			}
			r2 := runWorker(bin, prop, seed, idx, idx+1, dir, 900+len(viols), 120)
			if r2.out == nil && r2.exitCode != 3 && looksLikePanic(r2.stderr) {
				viols = append(viols, replayFile{Property: prop, Rule: prop + ".CRASH", Sig: "process-crash", Seed: seed, RunIndex: idx,
					Violation: "library goroutine panicked / fatal error: " + firstPanicLine(r2.stderr), Log: strings.Split(tail(r2.stderr, 4000), "\n"), Engine: 1})
			} else if r2.out == nil {
				fmt.Fprintf(os.Stderr, "HARNESS TROUBLE: worker [%d,%d) died (exit %d) and re-running index %d did not confirm a crash:\n%s\n", r.from, r.to, r.exitCode, idx, tail(r.stderr, 4000))
				trouble++
			} else {
				fmt.Fprintf(os.Stderr, "HARNESS TROUBLE: worker [%d,%d) died (exit %d) but index %d passes alone:\n%s\n", r.from, r.to, r.exitCode, idx, tail(r.stderr, 4000))
				trouble++
			}
			continue
		}
		o := r.out
		agg.Runs += o.Runs
		agg.NonTrivial += o.NonTrivial
		agg.SimTimeNs += o.SimTimeNs
		agg.Phases += o.Phases
		agg.Racy += o.Racy
		agg.Undrainable += o.Undrainable
		for _, h := range o.Hashes {
			hashes[h] = struct{}{}
		}
		for k, v := range o.Faults {
			agg.Faults[k] += v
		}
		for k, v := range o.Probes {
			agg.Probes[k] += v
		}
		for k, v := range o.Scenarios {
			agg.Scenarios[k] += v
		}
		for _, k := range o.Real {
			real[k] = true
		}
		for _, k := range o.Stub {
			stub[k] = true
		}
		if len(agg.Samples) < 3 {
			agg.Samples = append(agg.Samples, o.Samples...)
			if len(agg.Samples) > 3 {
				agg.Samples = agg.Samples[:3]
			}
		}
		viols = append(viols, o.Violations...)
		unrep = append(unrep, o.Unrepro...)
	}
	for _, u := range unrep {
		fmt.Printf("NOTE: not reported (fired once, did not fire again in %d immediate re-executions of the same tape; racy=%v): %s [%s] seed=%d run=%d %s\n", u.Attempts, u.Racy, u.Rule, u.Sig, seed, u.RunIndex, u.Msg)
	}

	// known findings
	known := loadKnown()
	tree := repoTree()
	type key struct{ rule, sig string }
	printedKnown := map[key]bool{}
	printedViol := map[key]bool{}
	unknown := 0
	knownHits := 0
	_ = os.MkdirAll(filepath.Join(verifDir, "replays", prop), 0o755)
	for i := range viols {
		v := &viols[i]
		v.RepoTree = tree
		k := key{v.Rule, v.Sig}
		isKnown := false
		for _, kf := range known {
			if kf.Property == prop && kf.Status == "known" && kf.Rule == v.Rule && kf.Sig == v.Sig {
				isKnown = true
				if !printedKnown[k] {
					printedKnown[k] = true
					fmt.Printf("KNOWN-FINDING: property=%s %s [%s] %s\n", prop, v.Rule, v.Sig, kf.What)
				}
			}
		}
		if isKnown {
			knownHits++
			continue
		}
		unknown++
		if printedViol[k] {
			continue
		}
		printedViol[k] = true
		name := fmt.Sprintf("%s-%s-seed%d-run%d.json", sanitize(v.Rule), sanitize(v.Sig), v.Seed, v.RunIndex)
		path := filepath.Join(verifDir, "replays", prop, name)
		b, _ := json.MarshalIndent(v, "", " ")
		_ = os.WriteFile(path, b, 0o644)
		fmt.Printf("VIOLATION property=%s replay=%s\n", prop, path)
		fmt.Printf("  rule=%s sig=%s seed=%d run=%d minimised=%v tape_len=%d (from %d)\n  %s\n", v.Rule, v.Sig, v.Seed, v.RunIndex, v.Minimised, len(v.Tape), v.OrigTapeLen, v.Violation)
	}

	// evidence
	wall := time.Since(start).Seconds()
	var samples []any
	for _, s := range agg.Samples {
		samples = append(samples, s)
	}
	if len(samples) == 0 {
		samples = append(samples, map[string]any{"note": "no non-trivial sample captured in the first 50 runs of any worker"})
	}
	realL, stubL := keys(real), keys(stub)
	cov := map[string]any{
		"evaluations":            agg.Runs,
		"distinct_nontrivial":    len(hashes),
		"rule":                   pi.Rule,
		"samples":                samples,
		"nontrivial_runs":        agg.NonTrivial,
		"scenarios":              agg.Scenarios,
		"faults_fired":           agg.Faults,
		"probes_hit":             agg.Probes,
		"simulated_time_s":       float64(agg.SimTimeNs) / 1e9,
		"phases":                 agg.Phases,
		"racy_runs":              agg.Racy,
		"undrainable_runs":       agg.Undrainable,
		"runs_per_hour":          float64(agg.Runs) / wall * 3600,
		"workers":                workers,
		"real_components":        realL,
		"stub_components":        stubL,
		"known_finding_hits":     knownHits,
		"repo_tree":              tree,
		"engine":                 1,
		"harness_trouble":        trouble,
		"unreproduced_anomalies": unrep,
	}
	// reach self-check: the rare conditions this property's verdict rests on must actually have occurred;
	// a probe or fault kind stuck at zero over a full-size batch means the workload has gone blind
	stuck := []string{}
	if agg.Runs >= 50000 {
		for _, r := range pi.Require {
			if agg.Probes[r] == 0 && agg.Faults[r] == 0 {
				stuck = append(stuck, r)
			}
		}
	}
	cov["required_conditions"] = pi.Require
	cov["required_conditions_never_reached"] = stuck
	if len(stuck) > 0 {
		trouble++
		cov["harness_trouble"] = trouble
		fmt.Printf("HARNESS TROUBLE: required condition(s) never reached in %d runs: %s\n", agg.Runs, strings.Join(stuck, ", "))
	}
	if pi.ExhaustN > 0 {
		cov["exhaustive"] = agg.Runs >= pi.ExhaustN && trouble == 0
		cov["exhaustive_table_size"] = pi.ExhaustN
		cov["explanation"] = "the first exhaustive_table_size runs enumerate the finite table completely; the remaining runs are seeded samples"
	}
	ev := map[string]any{
		"property_id": prop,
		"tier":        tier,
		"seed":        seed,
		"level":       "exploration",
		"coverage":    cov,
		"assumptions": pi.Assume,
		"wall_s":      wall,
		"violations":  unknown,
	}
	_ = os.MkdirAll(filepath.Join(verifDir, "evidence"), 0o755)
	b, _ := json.MarshalIndent(ev, "", " ")
	if err := os.WriteFile(filepath.Join(verifDir, "evidence", prop+".json"), b, 0o644); err != nil {
		die(2, "cannot write evidence: %v", err)
	}
	fmt.Printf("%s %s: runs=%d nontrivial=%d distinct=%d sim_time=%.0fs wall=%.1fs violations=%d known=%d trouble=%d\n",
		prop, tier, agg.Runs, agg.NonTrivial, len(hashes), float64(agg.SimTimeNs)/1e9, wall, unknown, knownHits, trouble)
	if unknown > 0 {
		return 1
	}
	if trouble > 0 || agg.Runs == 0 {
		return 2
	}
	return 0
}

func keys(m map[string]bool) []string {
	var out []string
	for k := range m {
		out = append(out, k)
	}
	sort.Strings(out)
	return out
}

// looksLikePanic reports a Go panic / fatal error whose panicking goroutine has
// frames in library code (files under /repo/); a panic purely inside the harness
// is harness trouble, never a violation.
func looksLikePanic(s string) bool {
	i := strings.Index(s, "panic:")
	if j := strings.Index(s, "fatal error:"); j >= 0 && (i < 0 || j < i) {
		i = j
	}
	if i < 0 {
		return false
	}
	rest := s[i:]
	g := strings.Index(rest, "goroutine ")
	if g < 0 {
		return false
	}
	block := rest[g:]
	if e := strings.Index(block, "\n\n"); e >= 0 {
		block = block[:e]
	}
	return strings.Contains(block, "/repo/")
}

// spinningInLibrary looks at a SIGQUIT goroutine dump: the goroutine that was running (not blocked) when the
// signal arrived, if it has frames in library code (files under /repo/), is the one that spins.
func spinningInLibrary(dump string) string {
	for _, block := range strings.Split(dump, "\n\n") {
		if !strings.HasPrefix(block, "goroutine ") {
			continue
		}
		head := block
		if i := strings.IndexByte(block, '\n'); i >= 0 {
			head = block[:i]
		}
		if !(strings.Contains(head, "[running") || strings.Contains(head, "[runnable")) {
			continue
		}
		if i := strings.Index(block, "/repo/"); i >= 0 {
			// the innermost library frame: function name is on the line before the file line
			lines := strings.Split(block, "\n")
			for k, l := range lines {
				if strings.Contains(l, "/repo/") && k > 0 {
					return strings.TrimSpace(lines[k-1]) + " at " + strings.TrimSpace(l)
				}
			}
		}
	}
	return ""
}

// blockedOnLibraryLock looks at the watchdog's goroutine dump of a wedged run: a goroutine of the bubble that waits for
// a sync.Mutex / sync.RWMutex and whose first frame outside the runtime and sync packages is library code.
func blockedOnLibraryLock(dump string) string {
	for _, block := range strings.Split(dump, "\n\n") {
		if !strings.HasPrefix(block, "goroutine ") {
			continue
		}
		head := block
		if i := strings.IndexByte(block, '\n'); i >= 0 {
			head = block[:i]
		}
		if !strings.Contains(head, "synctest bubble") || !(strings.Contains(head, "[sync.Mutex.Lock") || strings.Contains(head, "[sync.RWMutex.Lock") || strings.Contains(head, "[sync.RWMutex.RLock")) {
			continue
		}
		lines := strings.Split(block, "\n")
		for k := 1; k+1 < len(lines); k += 2 {
			fn, file := strings.TrimSpace(lines[k]), strings.TrimSpace(lines[k+1])
			if strings.HasPrefix(fn, "internal/sync.") || strings.HasPrefix(fn, "sync.") || strings.HasPrefix(fn, "runtime.") || strings.HasPrefix(fn, "internal/") {
				continue
			}
			if strings.HasPrefix(file, "/repo/") {
				return fn + " at " + file
			}
			break // the first frame outside sync/runtime is harness code: not the library's lock discipline
		}
	}
	return ""
}

func firstPanicLine(s string) string {
	for _, l := range strings.Split(s, "\n") {
		if strings.Contains(l, "panic:") || strings.Contains(l, "fatal error:") {
			return strings.TrimSpace(l)
		}
	}
	return ""
}

func tail(s string, n int) string {
	if len(s) > n {
		return "…" + s[len(s)-n:]
	}
	return s
}

func sanitize(s string) string {
	var b strings.Builder
	for _, r := range s {
		if (r >= 'a' && r <= 'z') || (r >= 'A' && r <= 'Z') || (r >= '0' && r <= '9') || r == '.' || r == '-' {
			b.WriteRune(r)
		} else {
			b.WriteRune('_')
		}
	}
	out := b.String()
	if len(out) > 60 {
		out = out[:60]
	}
	return out
}

func replay(path string) int {
	b, err := os.ReadFile(path)
	if err != nil {
		die(2, "cannot read %s: %v", path, err)
	}
	var rf replayFile
	if err := json.Unmarshal(b, &rf); err != nil {
		die(2, "cannot parse %s: %v", path, err)
	}
	bin := build(rf.Property)
	if rf.Rule == rf.Property+".CRASH" {
		dir, _ := os.MkdirTemp(filepath.Join(verifDir, ".build"), "replay-")
		defer os.RemoveAll(dir)
		r := runWorker(bin, rf.Property, rf.Seed, rf.RunIndex, rf.RunIndex+1, dir, 0, 120)
		if r.out == nil && looksLikePanic(r.stderr) {
			fmt.Println(tail(r.stderr, 4000))
			fmt.Printf("VIOLATION property=%s replay=%s\n", rf.Property, path)
			return 1
		}
		fmt.Println("REPLAY did-not-reproduce (crash)")
		return 0
	}
	cmd := exec.Command(bin, "-test.run", "^TestWorker$", "-test.timeout", "0", "-replay", path)
	cmd.Env = append(goEnv(), "GOMAXPROCS=1", "GODEBUG=asyncpreemptoff=1")
	out, err := cmd.CombinedOutput()
	fmt.Print(string(out))
	if err != nil {
		if looksLikePanic(string(out)) {
			fmt.Printf("VIOLATION property=%s replay=%s\n", rf.Property, path)
			return 1
		}
		return 2
	}
	if strings.Contains(string(out), "REPLAY reproduced") {
		fmt.Printf("VIOLATION property=%s replay=%s\n", rf.Property, path)
		return 1
	}
	return 0
}

// selftest proves determinism: the same run indices are executed in many fresh
// processes, under different machine load, and the per-run canonical-log hashes
// and verdicts are compared. Non-racy runs must agree on the hash, all runs on the verdict.
func selftest(prop string, seed uint64, n int, procs int) int {
	bin := build(prop)
	dir, err := os.MkdirTemp(filepath.Join(verifDir, ".build"), "self-"+prop+"-")
	if err != nil {
		die(2, "cannot create scratch dir: %v", err)
	}
	defer os.RemoveAll(dir)
	run := func(i int, par int) string {
		path := filepath.Join(dir, fmt.Sprintf("h%03d.txt", i))
		cmd := exec.Command(bin, "-test.run", "^TestWorker$", "-test.timeout", "0", "-prop", prop, "-seed", strconv.FormatUint(seed, 10), "-from", "0", "-to", strconv.Itoa(n), "-hashes", path)
		cmd.Env = append(goEnv(), "GOMAXPROCS="+strconv.Itoa(par), "GODEBUG=asyncpreemptoff=1")
		if out, err := cmd.CombinedOutput(); err != nil {
			die(2, "selftest worker failed: %v\n%s", err, tail(string(out), 3000))
		}
		b, _ := os.ReadFile(path)
		return string(b)
	}
	outs := make([]string, procs)
	// three load levels: 1, 4 and 16 processes at a time; GOMAXPROCS env 1/4/16 (the worker forces 1 itself)
	levels := []int{1, 4, 16}
	i := 0
	for i < procs {
		lvl := levels[i%len(levels)]
		var wg sync.WaitGroup
		for k := 0; k < lvl && i < procs; k++ {
			wg.Add(1)
			go func(i int) { defer wg.Done(); outs[i] = run(i, lvl) }(i)
			i++
		}
		wg.Wait()
	}
	ref := strings.Split(strings.TrimSpace(outs[0]), "\n")
	hashDiv, verdictDiv, racy, racyVerdictDiv := 0, 0, 0, 0
	for _, l := range ref {
		if f := strings.Fields(l); len(f) >= 3 && f[2] == "true" {
			racy++
		}
	}
	for p := 1; p < procs; p++ {
		lines := strings.Split(strings.TrimSpace(outs[p]), "\n")
		if len(lines) != len(ref) {
			die(2, "selftest: process %d produced %d lines, expected %d", p, len(lines), len(ref))
		}
		for j := range ref {
			a, b := strings.Fields(ref[j]), strings.Fields(lines[j])
			va, vb := "", ""
			if len(a) > 3 {
				va = a[3]
			}
			if len(b) > 3 {
				vb = b[3]
			}
			if va != vb {
				if a[2] == "true" || b[2] == "true" {
					racyVerdictDiv++ // the runtime, not the tape, decided (multi-ready select): reported, not fatal
				} else {
					verdictDiv++
					fmt.Printf("VERDICT DIVERGENCE run %s: %q vs %q\n", a[0], va, vb)
				}
			}
			if a[1] != b[1] && a[2] != "true" && b[2] != "true" {
				hashDiv++
				if hashDiv <= 10 {
					fmt.Printf("HASH DIVERGENCE run %s: %s vs %s (process %d)\n", a[0], a[1], b[1], p)
				}
			}
		}
	}
	fmt.Printf("selftest %s: %d runs x %d processes, racy=%d, hash divergences (non-racy)=%d, verdict divergences (non-racy)=%d, verdict divergences in racy runs=%d\n", prop, n, procs, racy, hashDiv, verdictDiv, racyVerdictDiv)
	if hashDiv > 0 || verdictDiv > 0 {
		return 2
	}
	return 0
}

func usage() {
	die(2, "usage: verif check <id> [--tier quick|thorough] [--seed N] [--runs N] [--workers N] | verif replay <file> | verif build")
}

func main() {
	if len(os.Args) < 2 {
		usage()
	}
	switch os.Args[1] {
	case "build":
		build("setup")
		fmt.Println("built")
	case "check":
		if len(os.Args) < 3 {
			usage()
		}
		prop := os.Args[2]
		tier := os.Getenv("VERIF_TIER")
		if tier == "" {
			tier = "quick"
		}
		var seed uint64 = 1
		if s := os.Getenv("VERIF_SEED"); s != "" {
			if v, err := strconv.ParseUint(s, 10, 64); err == nil {
				seed = v
			} else if v, err := strconv.ParseInt(s, 10, 64); err == nil {
				seed = uint64(v)
			}
		}
		runs, workers := 0, 0
		explicitTier := false
		for i := 3; i < len(os.Args); i++ {
			switch os.Args[i] {
			case "--tier":
				i++
				tier = os.Args[i]
				explicitTier = true
			case "--seed":
				i++
				seed, _ = strconv.ParseUint(os.Args[i], 10, 64)
			case "--runs":
				i++
				runs, _ = strconv.Atoi(os.Args[i])
			case "--workers":
				i++
				workers, _ = strconv.Atoi(os.Args[i])
			default:
				usage()
			}
		}
		_ = explicitTier
		if tier != "quick" && tier != "thorough" {
			usage()
		}
		os.Exit(check(prop, tier, seed, runs, workers))
	case "selftest":
		if len(os.Args) < 3 {
			usage()
		}
		n, procs := 200, 30
		if len(os.Args) > 3 {
			n, _ = strconv.Atoi(os.Args[3])
		}
		if len(os.Args) > 4 {
			procs, _ = strconv.Atoi(os.Args[4])
		}
		os.Exit(selftest(os.Args[2], 1, n, procs))
	case "replay":
		if len(os.Args) < 3 {
			usage()
		}
		os.Exit(replay(os.Args[2]))
	default:
		usage()
	}
}
