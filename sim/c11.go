package sim

import (
	"bytes"
	"context"
	"fmt"
	"time"

	"github.com/plgd-dev/go-coap/v3/message"
	"github.com/plgd-dev/go-coap/v3/message/codes"
	"github.com/plgd-dev/go-coap/v3/message/pool"
	"github.com/plgd-dev/go-coap/v3/mux"
	"github.com/plgd-dev/go-coap/v3/options"
	"github.com/plgd-dev/go-coap/v3/tcp"
)

// C11 — each received message is processed once; handlers may call back.

// c11Corpus: tapes of runs worth keeping (minimised by the shrinker). A tape is only a witness for as long as the
// scenario draws what it drew when the tape was recorded; a stale entry is an ordinary run.
var c11Corpus = [][]uint32{
	// thorough tier, seed 43, run 1319529: the connection's message-ID counter jumps back (two requests of the peer with
	// IDs near it), a nested observe registration gets the ID of a ping that has been answered but whose call has not
	// returned yet; the ping's cancel function then removes the registration's continuation by that ID
	{0, 0, 0, 7, 0, 2, 0, 0, 0, 0, 0, 3, 0, 0, 0, 7, 0, 5, 9, 8, 6, 0, 8, 6, 0, 8, 0, 0, 5, 8, 9, 0, 4, 4, 0, 0, 0, 0, 13},
}

func init() {
	Register(&PropDef{
		ID:    "C11",
		Title: "Each received message is processed once; handlers may call back",
		Rule: "S-NEST/server-depth: on a connection of a real udp server that was given WithLimitClientParallelRequest / WithLimitClientEndpointParallelRequest (0, 2 or 4) the peer asks /d3, the handler asks the peer /d2, the peer asks /d1 before it answers, that handler asks /d0 - two requests of the server outstanding on one connection, everything answered at once; otherwise: a scripted peer sends up to 12 requests to one real connection (UDP, DTLS shim, TCP, TLS shim; receive queue 0/1/16) whose handlers return at once or perform a nested blocking operation on the same connection (request, observe registration, observation cancel, ping, confirmable one-way write), to nesting depth 1-3; the peer answers nested operations when the tape says so; duplicates of a request that is still inside its handler (datagram), park points inside the reader-loop replacement protocol, connection close at any point; in S-ORDER the reader loop is first replaced 0-2 times by requests of application goroutines while a non-blocking handler is about to run, then a burst of 2-4 messages arrives while the reader is parked between queue and handler; " +
			"non-trivial = at least one handler blocked in a nested operation while another message arrived; distinct = distinct event-log hash",
		// witness schedules found by the thorough tier, replayed as the first run indices of every batch
		ExhaustN: len(c11Corpus),
		Exhaust: func(idx int) ([]uint32, bool) {
			if idx >= len(c11Corpus) {
				return nil, false
			}
			return c11Corpus[idx], true
		},
		Scenarios: []Scenario{{Name: "S-NEST", Weight: 3, Run: c11Run}, {Name: "S-ORDER/after-loop-replacement", Weight: 1, Run: c11OrderRun},
			{Name: "S-SERVER/shared-socket-reader", Weight: 1, Run: c11ServerRun},
			{Name: "S-NEST/request-limiter", Weight: 1, Run: c11LimitedRun},
			{Name: "S-NEST/pong-callback", Weight: 1, Run: c11PongCallbackRun},
			{Name: "S-NEST/server-depth", Weight: 1, Run: c11ServerDepthRun},
			// the framing workload of C07 on a server-side stream connection with a busy handler or an application request
			// monitor: what was accepted (not filtered) is dispatched once, in order, also when several frames share a read
			{Name: "S-STREAM/accepted-frames", Weight: 1, Run: func(e *Env) { e.RuleRename = [2]string{"C07.", "C11.S"}; c07Run(e, false) }}},
		Quick:    200000,
		Thorough: 3000000,
		Require:  []string{"nested.nonConfirmableRequest", "mid.peerRequestEqualsOwnOutstanding", "arrival.whileHandlerBlocked", "order.loopReplacedBefore", "readerLoop.replacedWhileInHandler", "monitor.dropsMessage", "server.connectionClosedWhileHandOffWaits", "nested.waitsForRequestSlot", "nested.requestFromPongCallback", "server.nestingDepthTwo"},
		Assume: []string{
			"'processing continues while it waits' is judged as: a nested operation has returned at the quiescent point after its answer was handed to the connection (parked goroutines released first)",
			"completeness (every accepted message dispatched) is only demanded of runs in which the connection stays open; order only of runs in which no handler blocked",
		},
	})
}

const (
	hFast = iota
	hGet
	hObserve
	hPing
	hWrite
	hCancelObs
	numHandlerKinds
)

var c11KindNames = [...]string{"fast", "nested-get", "nested-observe", "nested-ping", "nested-write", "nested-cancel-observation"}

type c11In struct {
	nonce             int
	kind              int
	emitted           bool
	emitPh            int
	handled           int
	order             int // dispatch order
	raw               *WMsg
	item              *OutItem
	nestedDone        bool
	nestedErr         error
	nestedAnswerPhase int // phase in which the answer of the nested operation was handed over (0 = not yet)
	nestedAt          time.Duration
	inHandler         bool
	nonNested         bool // the nested request is sent non-confirmable (datagram transports)
	dupSent           bool
}

func c11Run(e *Env) {
	t := e.Tape
	tr := PickTransport(t)
	qsize := []int{16, 0, 1}[t.Choose(3)]
	nMsgs := 1 + t.Choose(12)
	onlyFast := t.Chance(1, 4)
	parks := t.Choose(4)
	allowClose := t.Chance(1, 5)
	allowDup := IsDatagram(tr) && t.Chance(1, 3)
	// the request slots of the configuration: off / NSTART 16 in half of the runs, the defaults (one request at a time,
	// NSTART 1) or two at a time in the others
	slots := []int64{0, 0, 1, 2}[t.Choose(4)]
	nstart := uint32(16)
	if slots == 1 {
		nstart = 1
	}

	var ins []*c11In
	ownMIDCollision := false
	var ownMIDs []uint16 // message IDs of the endpoint's own requests / pings, as seen by the peer
	usedByPeer := map[uint16]bool{}
	// lastOwn: the latest own message ID that the peer has not used for a request of its own (a second
	// request with an ID the peer used before would be a genuine duplicate and is rightly swallowed)
	lastOwn := func() int {
		for i := len(ownMIDs) - 1; i >= 0; i-- {
			// (100..140: the peer's requests, 40000..40400: the message IDs of its answers)
			if m := ownMIDs[i]; !usedByPeer[m] && (m < 100 || m > 140) && (m < 40000 || m > 40400) {
				return int(m)
			}
		}
		return -1
	}
	dispatchSeq := 0
	var w *CWorld
	var liveObs mux.Observation
	router := mux.NewRouter()
	router.DefaultHandle(mux.HandlerFunc(func(rw mux.ResponseWriter, r *mux.Message) {
		q, _ := r.Options().Queries()
		n := -1
		for _, s := range q {
			_, _ = fmt.Sscanf(s, "n=%d", &n)
		}
		if n < 0 || n >= len(ins) {
			e.Notef("handler: unexpected message code=%v", r.Code())
			return
		}
		in := ins[n]
		if e.Pool.Enabled {
			// the request belongs to the application until the handler returns (C12)
			e.Pool.Hold(r.Message, fmt.Sprintf("request n=%d inside its handler", n))
			snap := Snapshot(r.Message)
			e.Pool.CheckHandover(snap, "request handed to a handler")
			defer func() {
				e.Pool.CheckHeld(r.Message, snap)
				e.Pool.Unhold(r.Message)
			}()
		}
		e.mu.Lock()
		in.handled++
		dispatchSeq++
		in.order = dispatchSeq
		in.inHandler = true
		hn := in.handled
		e.mu.Unlock()
		e.Notef("handler n=%d kind=%s run#%d", n, c11KindNames[in.kind], hn)
		cc := rw.Conn()
		ctx, cancel := context.WithTimeout(context.Background(), 30*time.Second+time.Duration(n+1)*1009*time.Nanosecond)
		defer cancel()
		var err error
		switch in.kind {
		case hFast:
		case hGet:
			var resp *pool.Message
			if in.nonNested {
				// a non-confirmable nested request: nothing waits for an acknowledgement, only for the response
				req := cc.AcquireMessage(ctx)
				tok, _ := w.API.GetToken()
				if err = req.SetupGet("/nested", tok, QueryOpt(1000+n)); err == nil {
					req.SetType(message.NonConfirmable)
					resp, err = cc.Do(req)
				}
				cc.ReleaseMessage(req)
			} else {
				resp, err = cc.Get(ctx, "/nested", QueryOpt(1000+n))
			}
			if resp != nil {
				cc.ReleaseMessage(resp)
			}
		case hObserve:
			var ob mux.Observation
			ob, err = cc.Observe(ctx, "/nestedobs", func(*pool.Message) {}, QueryOpt(1000+n))
			if err == nil {
				e.mu.Lock()
				liveObs = ob
				e.mu.Unlock()
			}
		case hPing:
			err = cc.Ping(ctx)
		case hWrite:
			m := cc.AcquireMessage(ctx)
			m.SetCode(codes.Content)
			m.SetToken(message.Token{0x66, byte(n)})
			m.SetBody(bytes.NewReader([]byte(fmt.Sprintf("oneway-%d", n))))
			err = cc.WriteMessage(m)
			cc.ReleaseMessage(m)
		case hCancelObs:
			e.mu.Lock()
			ob := liveObs
			liveObs = nil
			e.mu.Unlock()
			if ob != nil {
				err = ob.Cancel(ctx)
			}
		}
		e.mu.Lock()
		in.nestedDone, in.nestedErr, in.nestedAt = true, err, e.Now()
		in.inHandler = false
		e.mu.Unlock()
		if in.kind != hFast {
			e.Notef("handler n=%d nested %s returned err=%v", n, c11KindNames[in.kind], err != nil)
		}
		_ = rw.SetResponse(codes.Content, message.TextPlain, bytes.NewReader([]byte(fmt.Sprintf("done-%d", n))))
	}))
	if IsDatagram(tr) {
		cfg := SimUDPConfig(int32(t.Choose(65536)))
		cfg.TransmissionNStart = nstart
		cfg.TransmissionAcknowledgeTimeout = 2 * time.Second
		cfg.ReceivedMessageQueueSize = qsize
		cfg.BlockwiseEnable = false
		cfg.LimitClientParallelRequests, cfg.LimitClientEndpointParallelRequests = slots, slots
		options.WithMux(router).UDPClientApply(&cfg)
		w = NewCWorld(e, CWorldCfg{Transport: tr, UDP: cfg})
	} else {
		w = NewCWorld(e, CWorldCfg{Transport: tr, TCPOpts: []tcp.Option{
			options.WithMux(router), options.WithReceivedMessageQueueSize(qsize), options.WithCloseSocket(),
			options.WithLimitClientParallelRequest(slots), options.WithLimitClientEndpointParallelRequest(slots),
		}})
	}
	if w == nil {
		return
	}
	e.Real("mux.Router (default handler)", "net/client.ReceivedMessageReader")
	switch parks {
	case 1:
		e.EnablePark("reader.afterHandler", 0, 2)
	case 2:
		e.EnablePark("reader.afterFlagClear", 1)
		e.EnablePark("reader.replace.beforeLock", 0, 3)
	case 3:
		e.EnablePark("reader.afterHandler", 1)
		e.EnablePark("reader.replace.beforeLock", 1)
	}
	e.Wait()
	w.Pump()
	e.Logf("cfg transport=%s queue=%d msgs=%d onlyFast=%v parks=%d close=%v dup=%v slots=%d nstart=%d", tr, qsize, nMsgs, onlyFast, parks, allowClose, allowDup, slots, nstart)

	// nested operations seen by the peer: nonce 1000+n -> answer item
	answerOf := map[*OutItem]*c11In{}
	w.OnRecv = func(m *WMsg) {
		if IsDatagram(tr) && (m.Type == TACK || m.Type == TRST) {
			return
		}
		if IsDatagram(tr) {
			ownMIDs = append(ownMIDs, m.MID)
			for _, in := range ins {
				e.mu.Lock()
				busy := in.inHandler
				e.mu.Unlock()
				if busy && in.raw.MID == m.MID {
					ownMIDCollision = true
					e.Probe("mid.ownEqualsRequestInHandler")
				}
			}
		}
		mkAnswer := func(in *c11In, msg *WMsg, label string) {
			it := w.Queue(msg, label)
			it.NoDup, it.NoDrop = true, true
			answerOf[it] = in
		}
		// ping of a nested Ping
		if (IsDatagram(tr) && m.Type == TCON && m.Code == 0) || (!IsDatagram(tr) && m.Code == 0xe2) {
			for _, in := range ins {
				if in.kind == hPing && in.inHandler && in.nestedAnswerPhase == 0 {
					if IsDatagram(tr) {
						mkAnswer(in, &WMsg{Type: TRST, Code: 0, MID: m.MID}, fmt.Sprintf("pong(for n=%d)", in.nonce))
					} else {
						mkAnswer(in, &WMsg{Code: 0xe3, Token: m.Token}, fmt.Sprintf("pong(for n=%d)", in.nonce))
					}
					return
				}
			}
			return
		}
		// one-way confirmable write
		if m.Code == 0x45 && len(m.Token) == 2 && m.Token[0] == 0x66 {
			in := ins[int(m.Token[1])]
			if IsDatagram(tr) && m.Type == TCON {
				mkAnswer(in, &WMsg{Type: TACK, Code: 0, MID: m.MID}, fmt.Sprintf("ack-of-oneway(n=%d)", in.nonce))
			}
			return
		}
		if m.Code >= 1 && m.Code <= 4 {
			nn := ParseNonce(m)
			if nn >= 1000 && nn-1000 < len(ins) {
				in := ins[nn-1000]
				var opts []WOpt
				if _, isObs := m.OptUint(OptObserve); isObs {
					opts = append(opts, UintOpt(OptObserve, 5))
				}
				if IsDatagram(tr) && m.Type == TCON {
					mkAnswer(in, &WMsg{Type: TACK, Code: 0x45, MID: m.MID, Token: m.Token, Opts: opts, Payload: []byte("nested")}, fmt.Sprintf("answer(nested of n=%d)", in.nonce))
				} else {
					mkAnswer(in, &WMsg{Type: TNON, Code: 0x45, MID: w.NextPeerMID(), Token: m.Token, Opts: opts, Payload: []byte("nested")}, fmt.Sprintf("answer(nested of n=%d)", in.nonce))
				}
				return
			}
			// deregistration of an observation (no query): answer by token
			if ov, isObs := m.OptUint(OptObserve); isObs && ov == 1 {
				for _, in := range ins {
					if in.kind == hCancelObs && in.inHandler {
						if IsDatagram(tr) && m.Type == TCON {
							mkAnswer(in, &WMsg{Type: TACK, Code: 0x45, MID: m.MID, Token: m.Token, Payload: []byte("cancelled")}, fmt.Sprintf("answer(cancel of n=%d)", in.nonce))
						} else {
							mkAnswer(in, &WMsg{Type: TNON, Code: 0x45, MID: w.NextPeerMID(), Token: m.Token, Payload: []byte("cancelled")}, fmt.Sprintf("answer(cancel of n=%d)", in.nonce))
						}
						return
					}
				}
			}
		}
	}
	closedByUs := false
	closed := func() bool { return w.API.Context().Err() != nil }
	anyBlocked := false
	dupInHandler := false
	pongsEmitted := 0
	cancelAnswersEmitted := 0
	stalled := map[*c11In]bool{}

	checkNested := func() {
		if len(e.Parked()) > 0 {
			return
		}
		ph := e.Phase()
		for _, in := range ins {
			e.mu.Lock()
			done := in.nestedDone
			e.mu.Unlock()
			if in.kind == hPing || in.kind == hCancelObs {
				continue // pings and deregistrations carry no nonce: judged by count below
			}
			if in.nestedAnswerPhase > 0 && in.nestedAnswerPhase < ph && !done && !stalled[in] && !closed() {
				stalled[in] = true
				class := "stream"
				if IsDatagram(tr) {
					class = "datagram"
				}
				sig := fmt.Sprintf("nested-operation-stalled:%s:%s", c11KindNames[in.kind], class)
				if dupInHandler {
					// a duplicate of a request that is still inside its handler was delivered earlier in this run:
					// the replacement reader loop is stuck on the per-message-ID lock and everything behind it stalls
					sig = "nested-operation-stalled:duplicate-of-request-in-handler"
				} else if ownMIDCollision {
					// the nested operation's own message ID equals the message ID of a request that is still inside
					// its handler (repaired: acknowledgements no longer take the per-message-ID lock)
					sig = "nested-operation-stalled:own-message-id-equals-request-in-handler"
				}
				e.Violate("C11.R4", sig, "the answer to the %s issued by the handler of message n=%d was handed to the connection in phase %d, but the operation has not returned (phase %d): processing does not continue while the handler waits", c11KindNames[in.kind], in.nonce, in.nestedAnswerPhase, ph)
			}
		}
	}
	w.OnEmit = func(it *OutItem, dup bool) {
		if in := answerOf[it]; in != nil && in.nestedAnswerPhase == 0 {
			in.nestedAnswerPhase = e.Phase()
			if in.kind == hPing {
				pongsEmitted++
			}
			if in.kind == hCancelObs {
				cancelAnswersEmitted++
			}
		}
	}
	pingStallReported := false
	checkPings := func() {
		if len(e.Parked()) > 0 || closed() || pingStallReported {
			return
		}
		returned, cancelsReturned := 0, 0
		for _, in := range ins {
			e.mu.Lock()
			if in.kind == hPing && in.nestedDone {
				returned++
			}
			if in.kind == hCancelObs && in.nestedDone {
				cancelsReturned++
			}
			e.mu.Unlock()
		}
		if cancelsReturned < cancelAnswersEmitted {
			pingStallReported = true
			class := "stream"
			if IsDatagram(tr) {
				class = "datagram"
			}
			sig := "nested-operation-stalled:nested-cancel-observation:" + class
			if dupInHandler {
				sig = "nested-operation-stalled:duplicate-of-request-in-handler"
			}
			e.Violate("C11.R4", sig, "%d deregistration answers were handed to the connection but only %d cancellations issued by handlers have returned", cancelAnswersEmitted, cancelsReturned)
		}
		if returned < pongsEmitted {
			pingStallReported = true
			class := "stream"
			if IsDatagram(tr) {
				class = "datagram"
			}
			sig := "nested-operation-stalled:nested-ping:" + class
			if dupInHandler {
				sig = "nested-operation-stalled:duplicate-of-request-in-handler"
			}
			e.Violate("C11.R4", sig, "%d pongs were handed to the connection but only %d pings issued by handlers have returned", pongsEmitted, returned)
		}
	}

	for e.Budget() && !closed() {
		evs := w.Events(4)
		if len(ins) < nMsgs {
			evs = append(evs, Event{Label: "arrive", W: 5, Do: func() {
				n := len(ins)
				in := &c11In{nonce: n}
				if !onlyFast {
					in.kind = t.Weighted(3, 3, 1, 1, 1, 1)
				}
				if in.kind == hGet && IsDatagram(tr) && t.Chance(1, 3) {
					in.nonNested = true
					e.Probe("nested.nonConfirmableRequest")
				}
				typ := TCON
				if IsDatagram(tr) && t.Chance(1, 3) {
					typ = TNON
				}
				in.raw = &WMsg{Type: typ, Code: 2, MID: uint16(100 + n), Token: []byte{0x22, byte(n)}, Opts: []WOpt{{Num: OptURIPath, Val: []byte("in")}, {Num: OptURIQuery, Val: []byte(fmt.Sprintf("n=%d", n))}}, Payload: []byte("x")}
				if om := lastOwn(); IsDatagram(tr) && in.kind == hFast && t.Chance(1, 6) && om >= 0 {
					// the two message-ID spaces are independent: the peer's request happens to carry the ID of a
					// message of the endpoint that is still waiting for its acknowledgement / pong
					in.raw.MID = uint16(om)
					e.Fault("mid.peerRequestEqualsOwnOutstanding")
				}
				usedByPeer[in.raw.MID] = true
				for _, om := range ownMIDs {
					if om == in.raw.MID && in.kind != hFast {
						// known finding: the per-message-ID lock is shared by both ID spaces and held across the handler
						ownMIDCollision = true
					}
				}
				ins = append(ins, in)
				in.item = w.Queue(in.raw, fmt.Sprintf("request n=%d (%s)", n, c11KindNames[in.kind]))
				in.item.NoDup, in.item.NoDrop = true, true
				e.Logf("peer sends request n=%d kind=%s", n, c11KindNames[in.kind])
				w.Emit(in.item, false)
				in.emitted, in.emitPh = true, e.Phase()
				for _, o := range ins {
					e.mu.Lock()
					blocked := o.inHandler && o != in
					e.mu.Unlock()
					if blocked {
						e.NonTrivial()
						e.Probe("arrival.whileHandlerBlocked")
						anyBlocked = true
					}
				}
			}})
		}
		// a network duplicate of a request whose handler is still running (datagram transports)
		if allowDup {
			for _, in := range ins {
				in := in
				e.mu.Lock()
				blocked := in.inHandler
				e.mu.Unlock()
				if blocked && !in.dupSent && in.kind != hFast {
					evs = append(evs, Event{Label: "dup-in-handler", W: 2, Do: func() {
						in.dupSent = true
						dupInHandler = true
						e.Fault("dgram.dupOfRequestInHandler")
						e.Logf("network duplicates request n=%d while its handler is running", in.nonce)
						it := w.Queue(in.raw, fmt.Sprintf("duplicate of request n=%d", in.nonce))
						w.Emit(it, false)
					}})
				}
			}
		}
		if allowClose && len(ins) > 1 {
			evs = append(evs, Event{Label: "close", W: 1, Do: func() {
				closedByUs = true
				e.Fault("conn.close")
				e.Logf("application closes the connection")
				// queued messages and the done signal become ready together in the reader loop's select:
				// which one it takes is the runtime's choice
				e.MarkRacy()
				go func() { _ = w.API.Close() }()
			}})
		}
		for _, pg := range e.Parked() {
			pg := pg
			evs = append(evs, Event{Label: "resume", W: 3, Do: func() {
				e.Logf("resume %s#%d", pg.Site, pg.Hit)
				e.Fault("park.resume")
				e.Resume(pg)
			}})
		}
		w.prune()
		if len(ins) >= nMsgs && len(w.Outbox) == 0 && len(e.Parked()) == 0 {
			busy := false
			for _, in := range ins {
				e.mu.Lock()
				if in.inHandler {
					busy = true
				}
				e.mu.Unlock()
			}
			if !busy {
				break
			}
			// a handler waits for something nobody will send (e.g. a stalled operation): let time pass
			evs = append(evs, Event{Label: "advance", W: 1, Do: func() {
				e.Logf("advance 31s")
				e.Sleep(31 * time.Second)
			}})
		}
		if len(evs) == 0 {
			break
		}
		w.Step(evs)
		checkNested()
		checkPings()
	}
	// heal and drain
	e.DisableAllParks()
	for i := 0; i < 5 && !closed(); i++ {
		for _, pg := range e.Parked() {
			e.Resume(pg)
		}
		e.Wait()
		w.Pump()
		w.prune()
		for _, it := range append([]*OutItem(nil), w.Outbox...) {
			w.Emit(it, false)
			e.Wait()
			w.Pump()
		}
		checkNested()
	}
	for _, pg := range e.Parked() {
		e.Resume(pg)
	}
	e.Sleep(40 * time.Second) // every nested context has expired by now
	w.Pump()

	// R1 / R2 / R3
	var prev *c11In
	for _, in := range ins {
		e.mu.Lock()
		h := in.handled
		e.mu.Unlock()
		if h > 1 {
			e.Violate("C11.R2", "message-dispatched-twice", "message n=%d was handed to the handler %d times", in.nonce, h)
		}
		if h == 0 && in.emitted && !closed() && !closedByUs {
			e.Violate("C11.R1", "message-never-dispatched", "message n=%d was accepted in phase %d and never reached the handler although the connection stayed open", in.nonce, in.emitPh)
		}
		if !anyBlocked && onlyFast && h == 1 && prev != nil && prev.handled == 1 && prev.order > in.order && parks == 0 {
			e.Violate("C11.R3", "dispatch-out-of-arrival-order", "message n=%d arrived before n=%d but was dispatched after it although no handler blocked", prev.nonce, in.nonce)
		}
		if h == 1 {
			prev = in
		}
	}
}
