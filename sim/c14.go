package sim

import (
	"fmt"
	"runtime"
	"sort"
	"strings"
	"time"

	"github.com/anishathalye/porcupine"
	"github.com/plgd-dev/go-coap/v3/pkg/cache"
	coapSync "github.com/plgd-dev/go-coap/v3/pkg/sync"
)

// C14 — concurrent map and expiring cache are linearizable.
//
// Micro-harness: tasks are goroutines, exactly one runs at a time, from one
// yield point (H-YIELD sites inside pkg/sync and pkg/cache + one harness yield
// before every operation) to the next; the tape picks who goes next and when
// fake time advances. The recorded history is checked with porcupine against a
// sequential map with expiry.

func init() {
	Register(&PropDef{
		ID:    "C14",
		Title: "Concurrent map and expiring cache are linearizable",
		Rule: "2-3 tasks x 1-3 operations from the full Map / Cache API on 1-2 keys, unique written values, cooperative scheduling at critical-section granularity, " +
			"fake-time advances as events; non-trivial = at least two operations overlapped (one was parked inside while another ran); distinct = distinct (history, schedule) log hash",
		Scenarios: []Scenario{
			{Name: "M-MAP", Weight: 1, Run: func(e *Env) { c14Run(e, false) }},
			{Name: "M-CACHE", Weight: 1, Run: func(e *Env) { c14Run(e, true) }},
		},
		Quick:    300000,
		Thorough: 20000000,
		Require:  []string{"callback.readerIntruderTried", "callback.intruderTried", "ops.overlap", "porcupine.ok", "range.callbackPanicked", "cache.store", "map.unhashableKey"},
		Assume: []string{
			"interleavings are explored at the granularity of the named yield points (between critical sections), not at instruction level",
			"porcupine verdict Unknown (timeout) is counted as inconclusive, never reported",
		},
	})
}

const (
	mStore = iota
	mLoad
	mLoadOrStore
	mReplace
	mDelete
	mLoadAndDelete
	mLoadAndDeleteAll
	mLength
	mCopyData
	mRange2
	mRange // produces mVisit sub-operations
	mStoreWithFunc
	mLoadWithFunc
	mLoadOrStoreWithFunc
	mReplaceWithFunc
	mDeleteWithFunc
	mLoadAndDeleteWithFunc
	mVisit
	cLoadOrStore
	cLoad
	cDelete
	cSweep // produces cSweepKey sub-operations
	cSweepKey
	cAdvance
	cRefresh // the application extends the validity of a stored element (under the map's read lock)
	cStore   // the embedded map's Store on the cache: replaces whatever is there, valid or not
	numOps
)

var c14OpNames = [...]string{"Store", "Load", "LoadOrStore", "Replace", "Delete", "LoadAndDelete", "LoadAndDeleteAll", "Length", "CopyData", "Range2", "Range",
	"StoreWithFunc", "LoadWithFunc", "LoadOrStoreWithFunc", "ReplaceWithFunc", "DeleteWithFunc", "LoadAndDeleteWithFunc", "Visit",
	"Cache.LoadOrStore", "Cache.Load", "Cache.Delete", "Cache.CheckExpirations", "SweepKey", "AdvanceTime", "Cache.Refresh", "Cache.Store"}

type c14In struct {
	Op    int
	K     int
	V     int
	Until int64 // absolute fake ns; 0 = never expires
	Del   bool  // ReplaceWithFunc: callback asks for deletion
	Now   int64 // sweep: the now handed to CheckExpirations
	Dt    int64
	// Cache.LoadOrStore with an element object that several callers share (one per key, never expires): the model
	// does not care, the value is what counts
	Shared bool
}

type c14Out struct {
	V    int
	Ok   bool
	Snap [2]int // snapshot value per key (0 = absent)
	N    int
	CbV  int  // value the callback saw
	CbOk bool // callback's "loaded" flag
	Cb   bool // callback was invoked
}

type c14State struct {
	Val   [2]int // 0 = absent
	Until [2]int64
	Now   int64
}

func (s c14State) live(k int) bool {
	return s.Val[k] != 0 && !(s.Until[k] != 0 && s.Now > s.Until[k])
}

func c14Step(st, in, out interface{}) (bool, interface{}) {
	s := st.(c14State)
	i := in.(c14In)
	o := out.(c14Out)
	has := func(k int) bool { return s.Val[k] != 0 }
	switch i.Op {
	case mStore, mStoreWithFunc:
		s.Val[i.K], s.Until[i.K] = i.V, 0
		return true, s
	case mLoad, mVisit:
		if i.Op == mVisit {
			return has(i.K) && s.Val[i.K] == o.V, s
		}
		return o.Ok == has(i.K) && (!o.Ok || o.V == s.Val[i.K]), s
	case mLoadOrStore:
		if has(i.K) {
			return o.Ok && o.V == s.Val[i.K], s
		}
		s.Val[i.K], s.Until[i.K] = i.V, 0
		return !o.Ok && o.V == i.V, s
	case mReplace:
		ok := o.Ok == has(i.K) && (!o.Ok || o.V == s.Val[i.K])
		s.Val[i.K], s.Until[i.K] = i.V, 0
		return ok, s
	case mDelete, cDelete:
		s.Val[i.K], s.Until[i.K] = 0, 0
		return true, s
	case mLoadAndDelete:
		ok := o.Ok == has(i.K) && (!o.Ok || o.V == s.Val[i.K])
		s.Val[i.K], s.Until[i.K] = 0, 0
		return ok, s
	case mLoadAndDeleteAll:
		ok := o.Snap == s.Val
		s.Val, s.Until = [2]int{}, [2]int64{}
		return ok, s
	case mLength:
		n := 0
		for k := range s.Val {
			if has(k) {
				n++
			}
		}
		return o.N == n, s
	case mCopyData, mRange2:
		return o.Snap == s.Val, s
	case mLoadWithFunc:
		if has(i.K) {
			return o.Ok && o.Cb && o.CbV == s.Val[i.K], s
		}
		return !o.Ok && !o.Cb, s
	case mLoadOrStoreWithFunc:
		if has(i.K) {
			return o.Ok && o.Cb && o.CbV == s.Val[i.K], s
		}
		s.Val[i.K], s.Until[i.K] = i.V, 0
		return !o.Ok && !o.Cb, s
	case mReplaceWithFunc:
		ok := o.Cb && o.CbOk == has(i.K) && (!o.CbOk || o.CbV == s.Val[i.K]) && o.Ok == has(i.K) && (!o.Ok || o.V == s.Val[i.K])
		if i.Del {
			s.Val[i.K], s.Until[i.K] = 0, 0
		} else {
			s.Val[i.K], s.Until[i.K] = i.V, 0
		}
		return ok, s
	case mDeleteWithFunc:
		ok := o.Cb == has(i.K) && (!o.Cb || o.CbV == s.Val[i.K])
		s.Val[i.K], s.Until[i.K] = 0, 0
		return ok, s
	case mLoadAndDeleteWithFunc:
		ok := o.Ok == has(i.K) && o.Cb == has(i.K) && (!o.Cb || o.CbV == s.Val[i.K])
		s.Val[i.K], s.Until[i.K] = 0, 0
		return ok, s
	case cLoadOrStore:
		if s.live(i.K) {
			return o.Ok && o.V == s.Val[i.K], s
		}
		s.Val[i.K], s.Until[i.K] = i.V, i.Until
		return !o.Ok && o.V == i.V, s
	case cLoad:
		if s.live(i.K) {
			return o.Ok && o.V == s.Val[i.K], s
		}
		return !o.Ok, s
	case cSweepKey:
		// observed: the sweep removed key K (o.V = value whose expiry callback ran)
		if has(i.K) && s.Val[i.K] == o.V && s.Until[i.K] != 0 && i.Now > s.Until[i.K] {
			s.Val[i.K], s.Until[i.K] = 0, 0
			return true, s
		}
		return false, s
	case cStore:
		s.Val[i.K], s.Until[i.K] = i.V, i.Until
		return true, s
	case cAdvance:
		s.Now += i.Dt
		return true, s
	case cRefresh:
		// whatever is stored under the key - expired or not, as long as no sweep has removed it - gets a new validity
		if has(i.K) {
			s.Until[i.K] = i.Until
			return o.Ok && o.V == s.Val[i.K], s
		}
		return !o.Ok, s
	}
	return false, s
}

var c14Model = porcupine.Model{
	Init: func() interface{} { return c14State{} },
	Step: c14Step,
	DescribeOperation: func(in, out interface{}) string {
		i, o := in.(c14In), out.(c14Out)
		return fmt.Sprintf("%s(k%d v%d until%d del%v now%d dt%d) -> %+v", c14OpNames[i.Op], i.K, i.V, i.Until, i.Del, i.Now, i.Dt, o)
	},
}

type c14Rec struct {
	client int
	in     c14In
	out    c14Out
	call   int64
	ret    int64
}

func c14Run(e *Env, isCache bool) {
	t := e.Tape
	e.Real("pkg/sync.Map", "pkg/cache.Cache")
	nTasks := 2 + t.Choose(2)
	nKeys := 1 + t.Choose(2)
	// "auto.unlock" = the yields the build inserts after every non-deferred Unlock()/RUnlock() of map.go and cache.go;
	// "auto.aftercall" = those it inserts after every top-level call of cache.go into the embedded map
	sites := []string{"task.op", "map.LoadOrStore.gap", "map.Range.item", "cache.LoadOrStore.afterNow", "cache.sweep.beforeDelete", "auto.unlock", "auto.aftercall"}
	for _, s := range sites {
		e.EnableParkAll(s)
	}
	if !isCache && t.Chance(1, 16) {
		// a key that cannot be hashed (possible wherever the key type is an interface): the access panics, as it does
		// on a plain map - and the map stays usable for everybody else
		e.Probe("map.unhashableKey")
		mk := coapSync.NewMap[any, int]()
		op := t.Choose(4)
		func() {
			defer func() { _ = recover() }()
			switch op {
			case 0:
				mk.LoadOrStore([]int{1}, 1)
			case 1:
				mk.Store([]int{1}, 1)
			case 2:
				mk.Load([]int{1})
			default:
				mk.LoadAndDelete([]int{1})
			}
		}()
		mk.Store("k", 2)
		if v, ok := mk.Load("k"); !ok || v != 2 {
			e.Violate("C14.R1", "map-unusable-after-a-panicking-access", "after an access with an unhashable key, Store/Load of another key gave %v %v", v, ok)
		}
	}
	m := coapSync.NewMap[int, int]()
	c := cache.NewCache[int, int]()
	base := time.Now()
	nowNs := func() int64 { return int64(time.Since(base)) + 1 } // model time starts at 1 so that Until=0 means "never"

	var seq int64
	var recs []*c14Rec
	tick := func() int64 { e.mu.Lock(); seq++; v := seq; e.mu.Unlock(); return v }
	add := func(r *c14Rec) { e.mu.Lock(); recs = append(recs, r); e.mu.Unlock() }
	subClient := 100
	sharedEl := map[int]*cache.Element[int]{}
	sweeps := map[uint64]sweepInfo{}
	overlapped := map[string]bool{}
	rangeActive := 0

	// intruder: from inside a callback another goroutine tries to delete the very key the callback is looking at.
	// The callbacks run under the map's lock, so the delete cannot take effect before the callback has returned:
	// "callbacks run against the value actually in the map".
	intruderOn := t.Chance(1, 3)
	intruded, readerIntruded := false, false
	readerFirst := t.Chance(1, 2)
	intrude := func(k int, what string) {
		e.mu.Lock()
		if !intruderOn || intruded || readerIntruded {
			e.mu.Unlock()
			return
		}
		intruded = true
		subClient++
		sc := subClient
		e.mu.Unlock()
		e.Probe("callback.intruderTried")
		took := false
		rec := &c14Rec{client: sc, in: c14In{Op: mDeleteWithFunc, K: k}}
		go func() {
			rec.call = tick()
			m.DeleteWithFunc(k, func(v int) {
				rec.out.Cb, rec.out.CbV = true, v
				e.mu.Lock()
				took = true
				e.mu.Unlock()
			})
			rec.ret = tick()
			add(rec)
		}()
		for i := 0; i < 4; i++ {
			runtime.Gosched()
		}
		e.mu.Lock()
		t := took
		e.mu.Unlock()
		if t {
			e.Violate("C14.R2", "callback-outside-the-lock:"+what, "while the %s callback for key %d was running, a concurrent delete of that key took effect: the callback works on a value that is no longer in the map", what, k)
		}
	}

	// reader intruder: the callbacks of the mutating operations are documented to run under the write lock, i.e.
	// exclusively. A reader started from inside such a callback must not get to see the key before the callback
	// has returned (the limiter, for one, mutates the value in place inside LoadOrStoreWithFunc's callback).
	intrudeRead := func(k int, what string) {
		e.mu.Lock()
		if !intruderOn || !readerFirst || readerIntruded || intruded {
			e.mu.Unlock()
			return
		}
		readerIntruded = true
		subClient++
		sc := subClient
		e.mu.Unlock()
		e.Probe("callback.readerIntruderTried")
		saw := false
		rec := &c14Rec{client: sc, in: c14In{Op: mLoadWithFunc, K: k}}
		go func() {
			rec.call = tick()
			_, rec.out.Ok = m.LoadWithFunc(k, func(v int) int {
				rec.out.Cb, rec.out.CbV = true, v
				e.mu.Lock()
				saw = true
				e.mu.Unlock()
				return v
			})
			rec.ret = tick()
			add(rec)
		}()
		for i := 0; i < 4; i++ {
			runtime.Gosched()
		}
		e.mu.Lock()
		s := saw
		e.mu.Unlock()
		if s {
			e.Violate("C14.R2", "callback-not-exclusive:"+what, "while the %s callback for key %d was running (documented: under the write lock), a concurrent reader's callback ran on the same key", what, k)
		}
	}

	type opSpec struct {
		in c14In
	}
	plans := make([][]opSpec, nTasks)
	nextVal := 0
	useShared := isCache && t.Chance(1, 4)
	for ti := range plans {
		nOps := 1 + t.Choose(3)
		for oi := 0; oi < nOps; oi++ {
			nextVal++
			in := c14In{K: t.Choose(nKeys), V: nextVal}
			if isCache {
				in.Op = []int{cLoadOrStore, cLoad, cSweep, cDelete, cRefresh, cStore}[t.Weighted(4, 3, 3, 1, 2, 2)]
				// validity: short (expires during the run), long, or never
				in.Until = []int64{50, 10, 1000000, 0, 120}[t.Choose(5)] // relative ms, resolved at invoke
				if useShared {
					// (no refresh in these runs: it would change the validity of the one object the callers share, and
					// with it the meaning of the operations that pass it later)
					if in.Op == cRefresh {
						in.Op = cLoad
					}
					if in.Op == cLoadOrStore && t.Chance(1, 2) {
						in.Shared, in.V, in.Until = true, 9000+in.K, 0
					}
				}
			} else {
				in.Op = t.Choose(int(mVisit))
				in.Del = t.Chance(1, 3)
			}
			plans[ti] = append(plans[ti], opSpec{in: in})
		}
	}
	snap := func(d map[int]int) (s [2]int) {
		for k, v := range d {
			if k >= 0 && k < 2 {
				s[k] = v
			}
		}
		return s
	}

	runOp := func(client int, in c14In) {
		r := &c14Rec{client: client, in: in}
		switch in.Op {
		case mStore:
			r.call = tick()
			m.Store(in.K, in.V)
		case mLoad:
			r.call = tick()
			r.out.V, r.out.Ok = m.Load(in.K)
		case mLoadOrStore:
			r.call = tick()
			r.out.V, r.out.Ok = m.LoadOrStore(in.K, in.V)
		case mReplace:
			r.call = tick()
			r.out.V, r.out.Ok = m.Replace(in.K, in.V)
		case mDelete:
			r.call = tick()
			m.Delete(in.K)
		case mLoadAndDelete:
			r.call = tick()
			r.out.V, r.out.Ok = m.LoadAndDelete(in.K)
		case mLoadAndDeleteAll:
			r.call = tick()
			taken := m.LoadAndDeleteAll()
			r.out.Snap = snap(taken)
			// what LoadAndDeleteAll returns is the caller's: it may do with it what it likes. Nothing it writes there has
			// ever been stored in the Map.
			for k := 0; k < nKeys; k++ {
				taken[k] = -7
			}
		case mLength:
			r.call = tick()
			r.out.N = m.Length()
		case mCopyData:
			r.call = tick()
			r.out.Snap = snap(m.CopyData())
		case mRange2:
			r.call = tick()
			d := map[int]int{}
			m.Range2(func(k, v int) bool { d[k] = v; return true })
			r.out.Snap = snap(d)
		case mRange:
			e.mu.Lock()
			rangeActive++
			e.mu.Unlock()
			defer func() { e.mu.Lock(); rangeActive--; e.mu.Unlock() }()
			call := tick()
			// in.Del: the callback panics at its first item and the caller recovers (what every server does around
			// application code); a sequential map lets the panic through and stays what it was
			func() {
				defer func() {
					if x := recover(); x != nil {
						e.Probe("range.callbackPanicked")
					}
				}()
				m.Range(func(k, v int) bool {
					e.mu.Lock()
					subClient++
					sc := subClient
					e.mu.Unlock()
					add(&c14Rec{client: sc, in: c14In{Op: mVisit, K: k}, out: c14Out{V: v}, call: call, ret: tick()})
					if in.Del {
						panic("c14: callback of Range panics")
					}
					return true
				})
			}()
			return
		case mStoreWithFunc:
			r.call = tick()
			m.StoreWithFunc(in.K, func() int { return in.V })
		case mLoadWithFunc:
			r.call = tick()
			_, r.out.Ok = m.LoadWithFunc(in.K, func(v int) int { r.out.Cb, r.out.CbV = true, v; intrude(in.K, "LoadWithFunc"); return v })
		case mLoadOrStoreWithFunc:
			r.call = tick()
			_, r.out.Ok = m.LoadOrStoreWithFunc(in.K, func(v int) int {
				r.out.Cb, r.out.CbV = true, v
				intrudeRead(in.K, "LoadOrStoreWithFunc")
				intrude(in.K, "LoadOrStoreWithFunc")
				return v
			}, func() int { return in.V })
		case mReplaceWithFunc:
			r.call = tick()
			r.out.V, r.out.Ok = m.ReplaceWithFunc(in.K, func(old int, loaded bool) (int, bool) {
				r.out.Cb, r.out.CbV, r.out.CbOk = true, old, loaded
				if loaded {
					intrudeRead(in.K, "ReplaceWithFunc")
					intrude(in.K, "ReplaceWithFunc")
				}
				return in.V, in.Del
			})
		case mDeleteWithFunc:
			r.call = tick()
			m.DeleteWithFunc(in.K, func(v int) { r.out.Cb, r.out.CbV = true, v })
		case mLoadAndDeleteWithFunc:
			r.call = tick()
			_, r.out.Ok = m.LoadAndDeleteWithFunc(in.K, func(v int) int { r.out.Cb, r.out.CbV = true, v; return v })
		case cLoadOrStore:
			rel := in.Until
			var until time.Time
			if rel != 0 {
				until = time.Now().Add(time.Duration(rel) * time.Millisecond)
				r.in.Until = int64(until.Sub(base)) + 1
			}
			key := in.K
			val := in.V
			el := cache.NewElement(val, until, func(d int) {
				e.mu.Lock()
				subClient++
				sc := subClient
				e.mu.Unlock()
				e.mu.Lock()
				sw := sweeps[goid()]
				e.mu.Unlock()
				add(&c14Rec{client: sc, in: c14In{Op: cSweepKey, K: key, Now: sw.now}, out: c14Out{V: d}, call: sw.call, ret: tick()})
			})
			if in.Shared {
				e.Probe("cache.loadOrStoreWithSharedElement")
				r.in.Shared = false // (not part of the operation as the model sees it)
				e.mu.Lock()
				if sharedEl[key] == nil {
					sharedEl[key] = el
				}
				el = sharedEl[key]
				e.mu.Unlock()
			}
			r.call = tick()
			actual, loaded := c.LoadOrStore(in.K, el)
			r.out.V, r.out.Ok = actual.Data(), loaded
		case cStore:
			rel := in.Until
			var until time.Time
			if rel != 0 {
				until = time.Now().Add(time.Duration(rel) * time.Millisecond)
				r.in.Until = int64(until.Sub(base)) + 1
			}
			key := in.K
			el := cache.NewElement(in.V, until, func(d int) {
				e.mu.Lock()
				subClient++
				sc := subClient
				sw := sweeps[goid()]
				e.mu.Unlock()
				add(&c14Rec{client: sc, in: c14In{Op: cSweepKey, K: key, Now: sw.now}, out: c14Out{V: d}, call: sw.call, ret: tick()})
			})
			e.Probe("cache.store")
			r.call = tick()
			c.Store(in.K, el)
		case cLoad:
			r.call = tick()
			if el := c.Load(in.K); el != nil {
				r.out.V, r.out.Ok = el.Data(), true
			}
		case cDelete:
			r.call = tick()
			c.Delete(in.K)
		case cRefresh:
			rel := in.Until
			var until time.Time
			if rel != 0 {
				until = time.Now().Add(time.Duration(rel) * time.Millisecond)
				r.in.Until = int64(until.Sub(base)) + 1
			}
			e.Probe("cache.refresh")
			r.call = tick()
			c.LoadWithFunc(in.K, func(el *cache.Element[int]) *cache.Element[int] {
				el.ValidUntil.Store(until)
				r.out.V, r.out.Ok = el.Data(), true
				return el
			})
		case cSweep:
			now := time.Now()
			e.mu.Lock()
			rangeActive++
			e.mu.Unlock()
			defer func() { e.mu.Lock(); rangeActive--; e.mu.Unlock() }()
			call := tick()
			e.mu.Lock()
			sweeps[goid()] = sweepInfo{call: call, now: int64(now.Sub(base)) + 1}
			e.mu.Unlock()
			c.CheckExpirations(now)
			tick()
			return
		}
		r.ret = tick()
		add(r)
	}

	done := make([]bool, nTasks)
	for ti := 0; ti < nTasks; ti++ {
		ti := ti
		go func() {
			for _, op := range plans[ti] {
				e.yieldHook("task.op", uint64(ti))
				runOp(ti, op.in)
			}
			e.mu.Lock()
			done[ti] = true
			e.mu.Unlock()
		}()
		e.Wait()
	}
	_ = nowNs
	inside := map[*parkedG]bool{}
	for e.Budget() {
		pk := e.Parked()
		if len(pk) == 0 {
			break
		}
		e.mu.Lock()
		ra := rangeActive
		e.mu.Unlock()
		if ra > 0 && (m.Length() > 1 || c.Length() > 1) {
			e.MarkRacy() // a Range / sweep in progress over more than one key: Go's map iteration order is the runtime's choice, not the tape's
		}
		var evs []Event
		for _, p := range pk {
			p := p
			evs = append(evs, Event{Label: "resume", W: 4, Do: func() {
				e.Logf("resume %s#%d key=%d", p.Site, p.Hit, p.Key)
				// overlap probe: somebody else is parked *inside* an operation while this one runs
				for _, q := range pk {
					if q != p && q.Site != "task.op" {
						e.NonTrivial()
						e.Probe("ops.overlap")
						overlapped[q.Site] = true
					}
				}
				delete(inside, p)
				e.Resume(p)
			}})
		}
		if isCache {
			evs = append(evs, Event{Label: "advance", W: 2, Do: func() {
				dt := []time.Duration{30 * time.Millisecond, 11 * time.Millisecond, 100 * time.Millisecond}[t.Choose(3)]
				c0 := tick()
				time.Sleep(dt)
				e.Fault("time.advance")
				add(&c14Rec{client: 99, in: c14In{Op: cAdvance, Dt: int64(dt)}, call: c0, ret: tick()})
				e.Logf("advance %v", dt)
			}})
		}
		e.Pick(evs).Do()
		e.Wait()
	}
	// final audit
	for _, s := range sites {
		e.DisableParkAll(s)
	}
	for k := 0; k < nKeys; k++ {
		r := &c14Rec{client: 98, call: tick()}
		if isCache {
			r.in = c14In{Op: cLoad, K: k}
			if el := c.Load(k); el != nil {
				r.out.V, r.out.Ok = el.Data(), true
			}
		} else {
			r.in = c14In{Op: mLoad, K: k}
			r.out.V, r.out.Ok = m.Load(k)
		}
		r.ret = tick()
		add(r)
	}
	// history -> porcupine
	e.mu.Lock()
	hist := append([]*c14Rec(nil), recs...)
	e.mu.Unlock()
	sort.SliceStable(hist, func(i, j int) bool { return hist[i].call < hist[j].call })
	var ops []porcupine.Operation
	for _, r := range hist {
		e.Logf("op c%d %s -> call=%d ret=%d", r.client, c14Model.DescribeOperation(r.in, r.out), r.call, r.ret)
		ops = append(ops, porcupine.Operation{ClientId: r.client, Input: r.in, Call: r.call * 2, Output: r.out, Return: r.ret*2 + 1})
	}
	// direct rule R2 (the claim C03/C05/C06 rest on): concurrent store-if-absent, at most one "stored" per absent period
	res := porcupine.CheckOperationsTimeout(c14Model, ops, 20*time.Second)
	switch res {
	case porcupine.Illegal:
		sig := "map-history-not-linearizable"
		if isCache {
			sig = "cache-history-not-linearizable"
		}
		sig += ":" + c14Culprit(overlapped)
		e.Violate("C14.R1", sig, "history of %d operations is not linearizable w.r.t. the sequential map/cache model", len(ops))
	case porcupine.Unknown:
		e.Probe("porcupine.unknown")
	default:
		e.Probe("porcupine.ok")
	}
}

// c14Culprit names the yield sites at which an operation was suspended while another
// task ran; it makes the signature specific to the non-atomic operation that exhibits the problem.
func c14Culprit(overlapped map[string]bool) string {
	var names []string
	for n := range overlapped {
		names = append(names, n)
	}
	sort.Strings(names)
	return strings.Join(names, "+")
}

type sweepInfo struct {
	call int64
	now  int64
}

// goid returns the id of the calling goroutine (parsed from its stack header; only used on rare paths).
func goid() uint64 {
	var buf [64]byte
	n := runtime.Stack(buf[:], false)
	var id uint64
	for _, c := range buf[len("goroutine "):n] {
		if c < '0' || c > '9' {
			break
		}
		id = id*10 + uint64(c-'0')
	}
	return id
}
