package sim

import (
	"bytes"
	"context"
	"fmt"
	"time"

	"github.com/plgd-dev/go-coap/v3/message"
	"github.com/plgd-dev/go-coap/v3/message/codes"
	"github.com/plgd-dev/go-coap/v3/message/pool"
	"github.com/plgd-dev/go-coap/v3/net/blockwise"
	"github.com/plgd-dev/go-coap/v3/options"
	"github.com/plgd-dev/go-coap/v3/tcp"
)

// C03 — every response reaches exactly the request that carries its token.

func init() {
	Register(&PropDef{
		ID:    "C03",
		Title: "Every response reaches exactly the request that carries its token",
		Rule: "1-6 caller tasks x 1-4 requests (Get/Delete/Do with caller-chosen tokens, incl. tokens equal to an outstanding one) on one real connection (UDP, DTLS shim, TCP, TLS shim; block-wise on/off; limiter off/2); a scripted peer answers in any order - piggybacked, empty-ACK-then-separate (CON/NON), delayed across ticks, duplicated, plus forged answers for unknown and already-completed tokens; " +
			"non-trivial = at least two requests were outstanding at the same time; distinct = distinct event-log hash",
		Scenarios: []Scenario{{Name: "S-REQ/scripted-peer", Weight: 8, Run: c03Run},
			// responses are pooled objects: when the application is done with a response before the receive path is (a
			// middleware parked after the handler chain), the object must not end up with two owners - two callers
			// would share one response. The workload and tracker of C12, reporting under C03.
			{Name: "S-REQ/early-release", Weight: 1, Run: func(e *Env) {
				e.RuleRename = [2]string{"C12.", "C03.P"}
				e.Pool.Enabled = true
				e.PoolCapacity = []uint32{1, 2, 1024}[e.Tape.Choose(3)]
				c12Middleware(e)
			}}},
		Quick:    200000,
		Thorough: 3000000,
		Require:  []string{"requests.concurrentlyOutstanding", "token.differsOnlyInLeadingZeros", "token.collision", "msg.dup", "msg.forged", "blockwise.continuationServed", "middleware.resumedAfterAppWasDone", "ping.nextToRequests"},
		Assume: []string{
			"on datagram transports the scripted peer emits a separate response only after its empty ACK was delivered (the lost/overtaken-ACK case is C06's known finding and is kept out of this check)",
			"a second request invoked after the first one's answer was already handed to the connection may be accepted or rejected (A.1)",
		},
	})
}

type c03Req struct {
	nonce                    int
	caller                   int
	kind                     int    // 0 Get, 1 Delete, 2 Do(own token), 3 Do(colliding token)
	token                    []byte // caller-chosen (Do) or learnt from the wire
	call                     *Call
	atPeer                   bool
	mid                      uint16
	typ                      int
	respQueued               bool
	answered                 bool // the answer was handed to the connection while the call was running
	answeredAt               int
	collideWith              *c03Req
	firstOutstandingAtInvoke bool
	invokedPhase             int
	ackItem                  *OutItem
	ackEmitted               bool
	policy                   int
}

func c03Run(e *Env) {
	t := e.Tape
	tr := PickTransport(t)
	bw := t.Chance(1, 3)
	limit := []int64{0, 2, 1}[t.Weighted(3, 2, 1)]
	nCallers := 1 + t.Choose(6)
	ackTO := 2 * time.Second
	collisions := t.Chance(1, 2)
	parks := t.Choose(3)
	nstart := []uint32{16, 1, 2}[t.Weighted(2, 1, 1)] // NSTART: 1 is the default of the configuration
	// responses and requests are pooled objects (the default configuration recycles them): what one caller was given
	// must not be what another one is given
	if pc := []uint32{0, 2, 1024}[t.Choose(3)]; e.PoolCapacity == 0 && pc > 0 {
		e.PoolCapacity = pc
		e.Probe("pool.recycling")
	}

	var w *CWorld
	switch {
	case IsDatagram(tr):
		cfg := SimUDPConfig(int32(t.Choose(65536)))
		cfg.TransmissionAcknowledgeTimeout = ackTO
		cfg.TransmissionMaxRetransmit = 20 // the few ticks of this scenario never exhaust the attempts (exhaustion is C06's business)
		cfg.TransmissionNStart = nstart
		cfg.BlockwiseEnable = bw
		cfg.LimitClientParallelRequests = limit
		w = NewCWorld(e, CWorldCfg{Transport: tr, UDP: cfg})
	default:
		w = NewCWorld(e, CWorldCfg{Transport: tr, TCPOpts: []tcp.Option{
			options.WithBlockwise(bw, blockwise.SZX1024, 3*time.Second),
			options.WithLimitClientParallelRequest(limit),
			options.WithLimitClientEndpointParallelRequest(0),
			options.WithCloseSocket(),
		}})
	}
	if w == nil {
		return
	}
	w.DupW = t.Choose(3)
	w.SegW = t.Choose(3)
	site := "udp.doInternal.afterRegister"
	if !IsDatagram(tr) {
		site = "tcp.doInternal.afterRegister"
	}
	switch parks {
	case 1:
		e.EnablePark(site, 0, 2)
	case 2:
		e.EnablePark(site, 1)
		e.EnablePark("map.LoadOrStore.gap", 0, 1, 3)
	}
	e.Wait()
	if !IsDatagram(tr) && bw {
		// block-wise on a stream needs the peer's CSM to announce it
		it := w.Queue(&WMsg{Code: 0xe1, Token: []byte{1}, Opts: []WOpt{{Num: OptTCPBlockWise}}}, "csm")
		w.Emit(it, false)
		e.Wait()
	}
	w.Pump()
	e.Logf("cfg transport=%s bw=%v limit=%d nstart=%d callers=%d dup=%d seg=%d collisions=%v parks=%d", tr, bw, limit, nstart, nCallers, w.DupW, w.SegW, collisions, parks)

	var reqs []*c03Req
	remaining := make([]int, nCallers) // requests left per caller
	current := make([]*c03Req, nCallers)
	for i := range remaining {
		remaining[i] = 1 + t.Choose(4)
	}
	// with block-wise on, every third request is answered with a two-block body (16-byte blocks)
	blocky := func(n int) bool { return bw && n%3 == 2 }
	respPayload := func(n int) []byte {
		if blocky(n) {
			return []byte(fmt.Sprintf("resp-%d-0123456789abcdefgh", n))
		}
		return []byte(fmt.Sprintf("resp-%d", n))
	}
	blockOpts := func(n int, num uint32) ([]WOpt, []byte) {
		pl := respPayload(n)
		if !blocky(n) {
			return nil, pl
		}
		lo, hi := int(num)*16, int(num)*16+16
		if lo > len(pl) {
			lo = len(pl)
		}
		more := hi < len(pl)
		if hi > len(pl) {
			hi = len(pl)
		}
		return []WOpt{UintOpt(OptBlock2, BlockOpt(num, more, 0)), UintOpt(OptSize2, uint32(len(pl)))}, pl[lo:hi]
	}
	zeroFamily := 0
	trailing := t.Chance(1, 2)
	completedTokens := [][]byte{}
	sharedTokens := [][]byte{}
	itemReq := map[*OutItem]int{} // answer item -> nonce of the request it answers
	queueResp := func(n int, m *WMsg, label string) *OutItem {
		it := w.Queue(m, label)
		itemReq[it] = n
		if blocky(n) {
			it.NoDup = true // a duplicated block makes the library ask twice; the second answer could outlive the exchange
		}
		for _, st := range sharedTokens {
			if bytes.Equal(st, m.Token) && !(IsDatagram(tr) && m.Type == TCON) {
				it.NoDup = true
			}
		}
		return it
	}

	outstanding := func(r *c03Req) bool { return r.call != nil && !r.call.Done() && !r.answered }

	w.OnEmit = func(it *OutItem, dup bool) {
		for _, r := range reqs {
			if r.ackItem == it {
				r.ackEmitted = true
				if !r.respQueued {
					r.respQueued = true
					typ := TCON
					if r.policy == 2 {
						typ = TNON
					}
					o, pl := blockOpts(r.nonce, 0)
					queueResp(r.nonce, &WMsg{Type: typ, Code: 0x45, MID: w.NextPeerMID(), Token: r.token, Opts: o, Payload: pl}, fmt.Sprintf("separate-resp(n=%d)", r.nonce))
				}
			}
		}
		// an answer for nonce n is being handed to the connection
		if it.M != nil && it.M.Code >= 0x40 {
			n := -1
			if x, ok := itemReq[it]; ok {
				n = x
			}
			if b2, ok := it.M.OptUint(OptBlock2); ok && b2&8 != 0 {
				n = -1 // not the final block yet
			}
			if n >= 0 && n < len(reqs) {
				r := reqs[n]
				if !r.answered && r.call != nil && !r.call.Done() && r.call.Ctx.Err() == nil && bytes.Equal(it.M.Token, r.token) {
					r.answered, r.answeredAt = true, e.Phase()
				}
			}
		}
	}
	w.OnRecv = func(m *WMsg) {
		if IsDatagram(tr) && (m.Type == TACK || m.Type == TRST) {
			return
		}
		if !IsDatagram(tr) && m.Code == 0xe2 {
			// keep-alive traffic next to the requests: the peer answers a ping with a pong
			w.Queue(&WMsg{Code: 0xe3, Token: m.Token}, "pong")
			return
		}
		if IsDatagram(tr) && m.Code == 0 && m.Type == TCON {
			it := w.Queue(&WMsg{Type: TRST, Code: 0, MID: m.MID}, "pong(reset)")
			it.NoDup = true
			return
		}
		if m.Code == 0 || m.Code > 4 {
			return
		}
		n := ParseNonce(m)
		if n < 0 || n >= len(reqs) {
			return
		}
		r := reqs[n]
		if b2, ok := m.OptUint(OptBlock2); ok && b2>>4 >= 1 && blocky(n) {
			// continuation request of a block-wise download: serve the requested block (piggybacked)
			o, pl := blockOpts(n, b2>>4)
			if IsDatagram(tr) && m.Type == TCON {
				queueResp(n, &WMsg{Type: TACK, Code: 0x45, MID: m.MID, Token: m.Token, Opts: o, Payload: pl}, fmt.Sprintf("block%d(n=%d)", b2>>4, n))
			} else {
				queueResp(n, &WMsg{Type: TNON, Code: 0x45, MID: w.NextPeerMID(), Token: m.Token, Opts: o, Payload: pl}, fmt.Sprintf("block%d(n=%d)", b2>>4, n))
			}
			e.Probe("blockwise.continuationServed")
			return
		}
		if r.atPeer {
			// retransmitted copy: a real server repeats its acknowledgement
			if IsDatagram(tr) && m.Type == TCON {
				switch r.policy {
				case 0:
					o, pl := blockOpts(n, 0)
					queueResp(n, &WMsg{Type: TACK, Code: 0x45, MID: m.MID, Token: m.Token, Opts: o, Payload: pl}, fmt.Sprintf("piggyback-again(n=%d)", n))
				default:
					w.Queue(&WMsg{Type: TACK, Code: 0, MID: m.MID}, fmt.Sprintf("ack-again(n=%d)", n))
				}
			}
			return
		}
		r.atPeer, r.mid, r.typ = true, m.MID, m.Type
		// R3: a rejected request never reaches the wire. Two requests with one token that are on the
		// wire, running and unanswered at the same time mean the second was accepted while the token was outstanding.
		for _, o := range reqs {
			if o != r && o.atPeer && o.token != nil && bytes.Equal(o.token, m.Token) && !o.call.Done() && !o.answered && !r.call.Done() {
				e.Violate("C03.R3", "colliding-token-accepted", "request n=%d went out with token %x while request n=%d with that token is on the wire and unanswered", r.nonce, m.Token, o.nonce)
			}
		}
		if r.token == nil {
			r.token = m.Token
		} else if !bytes.Equal(r.token, m.Token) {
			e.Violate("C03.R1", "request-token-changed", "request n=%d went out with token %x, caller chose %x", n, m.Token, r.token)
		}
		if IsDatagram(tr) && m.Type == TCON {
			r.policy = t.Choose(3) // 0 piggyback, 1 ack + separate CON, 2 ack + separate NON
			if r.policy == 0 {
				o, pl := blockOpts(n, 0)
				queueResp(n, &WMsg{Type: TACK, Code: 0x45, MID: m.MID, Token: m.Token, Opts: o, Payload: pl}, fmt.Sprintf("piggyback(n=%d)", n))
			} else {
				r.ackItem = w.Queue(&WMsg{Type: TACK, Code: 0, MID: m.MID}, fmt.Sprintf("ack(n=%d)", n))
				r.ackItem.NoDrop = true
			}
		} else {
			typ := TNON
			o, pl := blockOpts(n, 0)
			queueResp(n, &WMsg{Type: typ, Code: 0x45, MID: w.NextPeerMID(), Token: m.Token, Opts: o, Payload: pl}, fmt.Sprintf("resp(n=%d)", n))
		}
		// R5: wire-level cross-check of the limiter
		if limit > 0 {
			inflight := 0
			for _, o := range reqs {
				if o.atPeer && o.call != nil && !o.call.Done() {
					inflight++
				}
			}
			if int64(inflight) > limit {
				e.Violate("C03.R5", "limiter-exceeded-on-wire", "%d requests on the wire whose calls have not returned, limit %d", inflight, limit)
			}
		}
	}

	var collided [][]byte // forged tokens that share their CRC-64 with the token of a request
	checkReturn := func(r *c03Req) {
		resp, err := r.call.Result()
		if err == nil {
			if resp == nil {
				e.Violate("C03.R1", "nil-success", "request n=%d returned success without a response", r.nonce)
				return
			}
			viaChecksum := false
			for _, ct := range collided {
				if bytes.Equal(resp.Token, ct) {
					viaChecksum = true // the forged answer whose token has the same CRC-64 as this request's token
				}
			}
			if viaChecksum {
				e.Violate("C03.R1", "foreign-token-returned:token-tables-keyed-by-checksum", "request n=%d (token %x) returned a response with token %x: a different token with the same CRC-64", r.nonce, r.token, resp.Token)
				completedTokens = append(completedTokens, r.token)
				// (one finding, reported once: the genuine answer to this request is withdrawn, it would only meet the
				// token's next user)
				r.respQueued = true
				for _, it := range w.Outbox {
					if it.M != nil && bytes.Equal(it.M.Token, r.token) && it.M.Code >= 0x40 {
						it.Gone = true
					}
				}
				return
			}
			if !bytes.Equal(resp.Token, r.token) {
				e.Violate("C03.R1", "foreign-token-returned", "request n=%d (token %x) returned a response with token %x", r.nonce, r.token, resp.Token)
			}
			if !bytes.Equal(resp.Payload, respPayload(r.nonce)) {
				sig := "foreign-response-returned"
				if IsDatagram(tr) && resp.Type == TACK && r.atPeer && uint16(resp.MID) != r.mid {
					// a piggybacked response whose message ID is not the request's (RFC 7252 5.3.2 requires both to match)
					sig = "stale-piggybacked-ack-matched-by-token-only"
				}
				e.Violate("C03.R2", sig, "request n=%d (mid %d) returned %q (type %d mid %d), the peer produced %q for it", r.nonce, r.mid, resp.Payload, resp.Type, resp.MID, respPayload(r.nonce))
			}
			completedTokens = append(completedTokens, r.token)
		}
	}

	nextNonce := 0
	pings, peerReqs := 0, 0
	var pingCalls []*Call
	checked := map[*c03Req]bool{}
	ticks := 0
	for e.Budget() {
		// returns
		running := 0
		for _, r := range reqs {
			if r.call.Done() {
				if !checked[r] {
					checked[r] = true
					checkReturn(r)
				}
			} else {
				running++
			}
		}
		outst := 0
		for _, r := range reqs {
			if outstanding(r) && r.atPeer {
				outst++
			}
		}
		if outst >= 2 {
			e.NonTrivial()
			e.Probe("requests.concurrentlyOutstanding")
		}
		evs := w.Events(5)
		for c := 0; c < nCallers; c++ {
			c := c
			if remaining[c] > 0 && (current[c] == nil || current[c].call.Done()) {
				evs = append(evs, Event{Label: "start", W: 4, Do: func() {
					remaining[c]--
					r := &c03Req{nonce: nextNonce, caller: c}
					nextNonce++
					r.kind = t.Weighted(3, 1, 2)
					// a token equal to one that is outstanding right now
					if collisions && t.Chance(1, 3) {
						var cands []*c03Req
						for _, o := range reqs {
							shared := false
							for _, st := range sharedTokens {
								if bytes.Equal(st, o.token) {
									shared = true // a token is re-used at most once per run (no cascades of ambiguity)
								}
							}
							if !o.call.Done() && o.token != nil && o.kind != 3 && !shared {
								cands = append(cands, o)
							}
						}
						if len(cands) > 0 {
							r.kind = 3
							r.collideWith = cands[t.Choose(len(cands))]
							r.token = r.collideWith.token
							r.firstOutstandingAtInvoke = outstanding(r.collideWith)
							// A network duplicate of an answer that carries this token could not be told from the
							// answer to the new request (tokens are all a client has): once a token is used twice,
							// duplicates of answers carrying it are no longer kept in flight.
							sharedTokens = append(sharedTokens, r.token)
							for _, it := range w.Outbox {
								if it.M != nil && bytes.Equal(it.M.Token, r.token) {
									if IsDatagram(tr) && it.M.Type == TCON {
										// a network duplicate of a confirmable message carries the same message ID:
										// the de-duplication layer has to swallow it, whatever token it carries
										continue
									}
									if it.Emitted > 0 {
										it.Gone = true
									}
									it.NoDup = true
								}
							}
							e.Probe("token.collision")
							if r.firstOutstandingAtInvoke {
								e.Probe("token.collision.firstOutstanding")
							}
						}
					}
					if r.kind == 2 {
						r.token = []byte{0x01, byte(r.nonce)}
						if zeroFamily < 7 && t.Chance(1, 3) {
							// distinct tokens that differ only in length: 50, 00 50, 00 00 50, ...
							r.token = append(make([]byte, zeroFamily), 0x50)
							if trailing {
								r.token = append([]byte{0x50}, make([]byte, zeroFamily)...) // 50, 50 00, 50 00 00, ...
							}
							zeroFamily++
							if zeroFamily > 1 {
								e.Probe("token.differsOnlyInLeadingZeros")
							}
						}
					}
					r.invokedPhase = e.Phase()
					r.call = e.NewCall(fmt.Sprintf("req%d", r.nonce), r.nonce, nil, 200*time.Second)
					r.call.ReadLater = t.Choose(3)
					r.call.OnChanged = func(was, now *RespInfo) {
						e.Violate("C03.R2", "response-changed-in-callers-hands", "request n=%d returned %s; when the caller read it again before releasing it, it was %s", r.nonce, was, now)
					}
					reqs = append(reqs, r)
					current[c] = r
					path := fmt.Sprintf("/r%d", r.nonce%3)
					e.Logf("caller %d starts req n=%d kind=%d token=%x", c, r.nonce, r.kind, r.token)
					e.Start(r.call, func(ctx context.Context) (*pool.Message, error) {
						switch r.kind {
						case 0:
							return w.API.Get(ctx, path, QueryOpt(r.nonce))
						case 1:
							return w.API.Delete(ctx, path, QueryOpt(r.nonce))
						default:
							req := w.API.AcquireMessage(ctx)
							defer w.API.ReleaseMessage(req)
							if err := req.SetupGet(path, message.Token(r.token), QueryOpt(r.nonce)); err != nil {
								return nil, err
							}
							if IsDatagram(tr) && r.nonce%4 == 1 {
								req.SetType(message.NonConfirmable)
							}
							return w.API.Do(req)
						}
					}, w.API.ReleaseMessage)
				}})
			}
		}
		// forged answers: unknown token, already completed token
		if len(reqs) > 0 && t.Chance(1, 8) {
			tok := []byte{0x7e, byte(len(reqs))}
			label := "forged(unknown token)"
			if len(completedTokens) > 0 && t.Chance(1, 2) {
				cand := completedTokens[t.Choose(len(completedTokens))]
				inUse := false
				for _, o := range reqs {
					if !o.call.Done() && bytes.Equal(o.token, cand) {
						inUse = true // a live request re-uses that token: an answer carrying it would simply be its answer
					}
				}
				if !inUse {
					tok = cand
					label = "forged(completed token)"
				}
			}
			e.Fault("msg.forged")
			fm := &WMsg{Type: TNON, Code: 0x45, MID: w.NextPeerMID(), Token: tok, Payload: []byte("forged")}
			if bw && t.Chance(1, 4) {
				// a confused peer "continues" something that is no upload: 2.31 with a block option, under the token
				// of a request without a payload that is outstanding
				for _, o := range reqs {
					if outstanding(o) && o.atPeer && o.kind != 3 {
						fm = &WMsg{Type: TNON, Code: 0x5f, MID: fm.MID, Token: o.token, Opts: []WOpt{UintOpt(OptBlock2, BlockOpt(0, true, 0))}}
						label = "forged(2.31 with a block option for an outstanding token)"
						break
					}
				}
			}
			if t.Chance(1, 4) {
				// the one 8-byte token that has the same CRC-64 as the (shorter, caller-chosen) token of an outstanding request
				for _, o := range reqs {
					if outstanding(o) && o.atPeer && o.kind == 2 && len(o.token) < 8 {
						if ct := collidingToken(o.token); ct != nil {
							collided = append(collided, ct)
							fm = &WMsg{Type: TNON, Code: 0x45, MID: fm.MID, Token: ct, Payload: []byte("forged")}
							label = fmt.Sprintf("forged(token with the checksum of %x)", o.token)
							e.Probe("forged.tokenWithTheSameChecksum")
						}
						break
					}
				}
			}
			w.Queue(fm, label)
		}
		// tokens are scoped per direction (RFC 7252 5.3.1): a request of the peer may carry the same token bytes as a
		// request of ours that is outstanding - it is a request, not the answer we are waiting for
		if peerReqs < 2 {
			var cands []*c03Req
			for _, r := range reqs {
				if outstanding(r) && r.atPeer && r.kind != 3 {
					cands = append(cands, r)
				}
			}
			if len(cands) > 0 {
				evs = append(evs, Event{Label: "peer-request-with-our-token", W: 1, Do: func() {
					peerReqs++
					r := cands[t.Choose(len(cands))]
					e.Fault("msg.peerRequestWithOutstandingToken")
					e.Probe("peer.requestCarriesOutstandingToken")
					m := &WMsg{Type: TNON, Code: 1, MID: w.NextPeerMID(), Token: r.token, Opts: []WOpt{{Num: OptURIPath, Val: []byte("peer-asks")}}, Payload: []byte("peer-request")}
					if bw && t.Chance(1, 2) {
						// ... asking for a block of the answer (early negotiation of the block size)
						m.Opts = append(m.Opts, UintOpt(OptBlock2, BlockOpt(uint32(t.Choose(2)), false, 0)))
						m.Payload = nil
					}
					it := w.Queue(m, fmt.Sprintf("request of the peer with the token of n=%d", r.nonce))
					it.NoDup = true
					w.Emit(it, false)
				}})
			}
		}
		if pings < 2 {
			evs = append(evs, Event{Label: "ping", W: 1, Do: func() {
				pings++
				pc := e.NewCall(fmt.Sprintf("ping%d", pings), -1, nil, 200*time.Second)
				pingCalls = append(pingCalls, pc)
				e.Logf("a caller pings the peer")
				e.Probe("ping.nextToRequests")
				e.Start(pc, func(ctx context.Context) (*pool.Message, error) { return nil, w.API.Ping(ctx) }, nil)
			}})
		}
		if running > 0 && ticks < 6 {
			evs = append(evs, Event{Label: "tick", W: 1, Do: func() {
				ticks++
				dt := []time.Duration{time.Millisecond, ackTO + time.Millisecond, 500 * time.Millisecond}[t.Choose(3)]
				e.Logf("advance %v then tick", dt)
				e.Sleep(dt)
				e.Fault("tick")
				w.Tick(time.Now())
			}})
		}
		for _, pg := range e.Parked() {
			pg := pg
			evs = append(evs, Event{Label: "resume", W: 3, Do: func() {
				e.Logf("resume %s#%d", pg.Site, pg.Hit)
				e.Fault("park.resume")
				e.Resume(pg)
			}})
		}
		if len(evs) == 0 {
			break
		}
		w.Step(evs)
	}
	// heal and drain
	e.DisableAllParks()
	for i := 0; i < 6; i++ {
		for _, pg := range e.Parked() {
			e.Resume(pg)
		}
		e.Wait()
		w.Pump()
		w.prune()
		for _, it := range append([]*OutItem(nil), w.Outbox...) {
			w.Emit(it, false)
			e.Wait()
			w.Pump()
		}
	}
	for _, r := range reqs {
		if r.call.Done() && !checked[r] {
			checked[r] = true
			checkReturn(r)
		}
	}
	closed := w.API.Context().Err() != nil
	for _, r := range reqs {
		if !r.call.Done() {
			// nothing was delivered for it (rejected copies etc.): cancel and make sure it ends
			if r.answered && !closed && r.kind != 3 {
				e.Violate("C03.R4", "answered-request-never-completed", "request n=%d: its answer was handed to the connection in phase %d but the call has not returned", r.nonce, r.answeredAt)
			}
			e.CancelCall(r.call)
		}
	}
	for _, pc := range pingCalls {
		if !pc.Done() {
			e.CancelCall(pc)
		}
	}
	e.Wait()
	for _, r := range reqs {
		if !r.call.Done() {
			continue
		}
		_, err := r.call.Result()
		if err != nil && r.answered && !closed && !r.call.Cancelled {
			sig := "answered-request-failed"
			if r.kind == 3 {
				continue // a rejected colliding request may of course fail
			}
			for _, o := range reqs {
				if o.kind == 3 && o.collideWith == r {
					sig = "first-request-displaced-by-colliding-token"
				}
			}
			e.Violate("C03.R4", sig, "request n=%d (token %x): its own answer was handed to the connection while it was waiting, but the call failed: %s", r.nonce, r.token, trimErr(err))
		}
	}
}

var _ = codes.GET
