package sim

import (
	"encoding/json"
	"fmt"
	"os"
	"runtime"
	"runtime/debug"
	"sort"
	"testing"
	"time"
)

// ReplayFile is the on-disk form of a failing (or sample) run.
type ReplayFile struct {
	Property    string   `json:"property"`
	Rule        string   `json:"rule"`
	Sig         string   `json:"sig"`
	Scenario    string   `json:"scenario"`
	Engine      int      `json:"engine"`
	RepoTree    string   `json:"repo_tree,omitempty"`
	Seed        uint64   `json:"seed"`
	RunIndex    uint64   `json:"run_index"`
	Racy        bool     `json:"racy"`
	Tape        []uint32 `json:"tape"`
	Violation   string   `json:"violation"`
	Log         []string `json:"log"`
	Minimised   bool     `json:"minimised"`
	ShrinkRuns  int      `json:"shrink_runs"`
	OrigTapeLen int      `json:"orig_tape_len"`
}

// WorkerOut is what one worker process reports for its range of run indices.
type WorkerOut struct {
	Property    string         `json:"property"`
	From        uint64         `json:"from"`
	To          uint64         `json:"to"`
	Runs        int            `json:"runs"`
	NonTrivial  int            `json:"nontrivial"`
	Hashes      []uint64       `json:"hashes"` // distinct canonical-log hashes of non-trivial runs
	AllHashes   int            `json:"all_hashes"`
	Faults      map[string]int `json:"faults"`
	Probes      map[string]int `json:"probes"`
	Scenarios   map[string]int `json:"scenarios"`
	SimTimeNs   int64          `json:"sim_time_ns"`
	Phases      int64          `json:"phases"`
	Racy        int            `json:"racy"`
	Undrainable int            `json:"undrainable"`
	Samples     []Sample       `json:"samples"`
	Violations  []ReplayFile   `json:"violations"`
	// Unreproduced: a rule fired once and did not fire again when the very same tape was re-executed at once in
	// the same process (3 attempts, 8 for racy runs). The only schedule source the simulator does not own is the
	// runtime's cooperative preemption of a goroutine that has been on the P for 10 ms of wall time (the OS
	// descheduled the worker under load); such an execution cannot be replayed and is therefore not reported as a
	// violation - it is counted and described here.
	Unreproduced []Unrepro `json:"unreproduced"`
	Real         []string  `json:"real"`
	Stub         []string  `json:"stub"`
	WallS        float64   `json:"wall_s"`
	Exhaustive   bool      `json:"exhaustive"`
	ExhaustN     int       `json:"exhaust_n"`
}

type Sample struct {
	RunIndex uint64   `json:"run_index"`
	Scenario string   `json:"scenario"`
	Tape     []uint32 `json:"tape"`
	Log      []string `json:"log"`
}

type Unrepro struct {
	Rule     string `json:"rule"`
	Sig      string `json:"sig"`
	RunIndex uint64 `json:"run_index"`
	Racy     bool   `json:"racy"`
	Msg      string `json:"msg"`
	Attempts int    `json:"attempts"`
}

// confirm re-executes the tape of a failing run: a violation is only worth reporting if it can be replayed.
func confirm(t *testing.T, p *PropDef, res *RunResult, v Violation) (bool, int) {
	n := 3
	if res.Racy {
		n = 8
	}
	for i := 1; i <= n; i++ {
		r := Execute(t, p, NewReplayTape(res.Tape), false)
		if hasViol(r, v.Rule, v.Sig) != nil || (r.Undrainable != "" && v.Sig == "undrainable-goroutine") {
			return true, i
		}
	}
	return false, n
}

func gcNow() {
	debug.SetGCPercent(100)
	runtime.GC()
	debug.SetGCPercent(-1)
}

// tapeFor builds the tape of run idx (exhaustive prefix first, then seeded search).
func tapeFor(p *PropDef, seed, idx uint64) *Tape {
	if p.Exhaust != nil && idx < uint64(p.ExhaustN) {
		if tp, ok := p.Exhaust(int(idx)); ok {
			return NewReplayTape(tp)
		}
	}
	return NewPRNGTape(Mix(seed, p.ID, idx))
}

// RunRange executes run indices [from,to) and aggregates.
func RunRange(t *testing.T, p *PropDef, seed, from, to uint64, statusPath string, deadline time.Time) *WorkerOut {
	start := time.Now()
	out := &WorkerOut{Property: p.ID, From: from, To: to, Faults: map[string]int{}, Probes: map[string]int{}, Scenarios: map[string]int{}}
	hashes := map[uint64]struct{}{}
	allHashes := map[uint64]struct{}{}
	real, stub := map[string]bool{}, map[string]bool{}
	var status *os.File
	if statusPath != "" {
		status, _ = os.OpenFile(statusPath, os.O_CREATE|os.O_WRONLY|os.O_TRUNC, 0o644)
		defer status.Close()
	}
	violSeen := map[string]int{}
	for idx := from; idx < to; idx++ {
		if !deadline.IsZero() && idx%64 == 0 && time.Now().After(deadline) {
			out.To = idx
			break
		}
		if status != nil {
			_, _ = status.WriteAt([]byte(fmt.Sprintf("%020d\n", idx)), 0)
		}
		if (idx-from)%256 == 255 {
			gcNow()
		}
		tape := tapeFor(p, seed, idx)
		keep := len(out.Samples) < 3 && (idx-from) < 50
		res := Execute(t, p, tape, keep)
		out.Runs++
		out.SimTimeNs += int64(res.SimTime)
		out.Phases += int64(res.Phases)
		out.Scenarios[res.Scenario]++
		for k, v := range res.Faults {
			out.Faults[k] += v
		}
		for k, v := range res.Probes {
			out.Probes[k] += v
		}
		for _, k := range res.Real {
			real[k] = true
		}
		for _, k := range res.Stub {
			stub[k] = true
		}
		if res.Racy {
			out.Racy++
		}
		allHashes[res.Hash] = struct{}{}
		if res.NonTrivial {
			out.NonTrivial++
			hashes[res.Hash] = struct{}{}
			if keep && len(res.Log) > 0 {
				lg := res.Log
				if len(lg) > 60 {
					lg = append(append([]string(nil), lg[:58]...), fmt.Sprintf("… (%d more lines)", len(res.Log)-58))
				}
				out.Samples = append(out.Samples, Sample{RunIndex: idx, Scenario: res.Scenario, Tape: clipTape(res.Tape, 200), Log: lg})
			}
		}
		if res.Undrainable != "" {
			out.Undrainable++
			res.Viol = append(res.Viol, Violation{Rule: p.ID + ".DRAIN", Sig: "undrainable-goroutine", Msg: "goroutines still blocked after cancel+close of everything: " + firstLines(res.Undrainable, 40)})
		}
		for _, v := range res.Viol {
			key := v.Rule + "|" + v.Sig
			violSeen[key]++
			if violSeen[key] > 1 { // keep at most two witnesses per (rule, signature) per worker
				continue
			}
			if ok, n := confirm(t, p, res, v); !ok {
				violSeen[key]--
				if len(out.Unreproduced) < 16 {
					out.Unreproduced = append(out.Unreproduced, Unrepro{Rule: v.Rule, Sig: v.Sig, RunIndex: idx, Racy: res.Racy, Msg: v.Msg, Attempts: n})
				}
				continue
			}
			rf := minimise(t, p, res, v, seed, idx)
			out.Violations = append(out.Violations, *rf)
		}
	}
	for h := range hashes {
		out.Hashes = append(out.Hashes, h)
	}
	sort.Slice(out.Hashes, func(i, j int) bool { return out.Hashes[i] < out.Hashes[j] })
	out.AllHashes = len(allHashes)
	for k := range real {
		out.Real = append(out.Real, k)
	}
	for k := range stub {
		out.Stub = append(out.Stub, k)
	}
	sort.Strings(out.Real)
	sort.Strings(out.Stub)
	out.WallS = time.Since(start).Seconds()
	if p.Exhaust != nil {
		out.ExhaustN = p.ExhaustN
	}
	return out
}

func clipTape(t []uint32, n int) []uint32 {
	if len(t) > n {
		return t[:n]
	}
	return t
}

func firstLines(s string, n int) string {
	c := 0
	for i := range s {
		if s[i] == '\n' {
			c++
			if c >= n {
				return s[:i]
			}
		}
	}
	return s
}

func hasViol(res *RunResult, rule, sig string) *Violation {
	for i := range res.Viol {
		if res.Viol[i].Rule == rule && res.Viol[i].Sig == sig {
			return &res.Viol[i]
		}
	}
	return nil
}

// minimise shrinks the tape of a failing run while the same (rule, signature) keeps firing.
func minimise(t *testing.T, p *PropDef, res *RunResult, v Violation, seed, idx uint64) *ReplayFile {
	best := append([]uint32(nil), res.Tape...)
	bestRes := res
	bestV := v
	orig := len(best)
	runs := 0
	deadline := time.Now().Add(12 * time.Second)
	try := func(cand []uint32) bool {
		if runs >= 1500 || time.Now().After(deadline) {
			return false
		}
		runs++
		r := Execute(t, p, NewReplayTape(cand), false)
		if r.Undrainable != "" && v.Sig == "undrainable-goroutine" {
			bestRes, best = r, append([]uint32(nil), r.Tape...)
			return true
		}
		if vv := hasViol(r, v.Rule, v.Sig); vv != nil {
			best = trimZeros(append([]uint32(nil), r.Tape...))
			bestRes = r
			bestV = *vv
			return true
		}
		return false
	}
	if v.Sig != "undrainable-goroutine" {
		// 1. truncate at the violation, then shorter prefixes
		if v.Pos > 0 && v.Pos < len(best) {
			try(best[:v.Pos])
		}
		for n := len(best) / 2; n >= 1 && runs < 1500; n /= 2 {
			for len(best) > n && try(best[:len(best)-n]) {
			}
		}
		// 2. zero blocks, 3. delete blocks
		for bs := 8; bs >= 1; bs /= 2 {
			for i := 0; i+bs <= len(best); i++ {
				allZero := true
				for _, x := range best[i : i+bs] {
					if x != 0 {
						allZero = false
					}
				}
				if !allZero {
					c := append([]uint32(nil), best...)
					for j := i; j < i+bs; j++ {
						c[j] = 0
					}
					if try(c) {
						continue
					}
				}
				if i >= 4 { // keep configuration draws aligned: delete only later cells
					c := append(append([]uint32(nil), best[:i]...), best[i+bs:]...)
					try(c)
				}
			}
		}
		// 4. lower individual values
		for i := 0; i < len(best); i++ {
			for i < len(best) && best[i] > 0 {
				c := append([]uint32(nil), best...)
				c[i] = best[i] / 2
				if !try(c) {
					if i >= len(best) {
						break
					}
					c = append([]uint32(nil), best...)
					c[i] = best[i] - 1
					if !try(c) {
						break
					}
				}
			}
		}
	}
	// confirm once more
	final := Execute(t, p, NewReplayTape(best), true)
	minimised := true
	if vv := hasViol(final, v.Rule, v.Sig); vv != nil {
		bestRes, bestV = final, *vv
	} else if !(final.Undrainable != "" && v.Sig == "undrainable-goroutine") {
		// minimised tape did not reproduce: report the original
		minimised = false
		best = res.Tape
		bestRes = Execute(t, p, NewReplayTape(best), true)
		bestV = v
	} else {
		bestRes = final
	}
	bestRes.Log = clipLog(bestRes.Log, 260)
	return &ReplayFile{
		Property: p.ID, Rule: v.Rule, Sig: v.Sig, Scenario: bestRes.Scenario, Engine: EngineVersion,
		Seed: seed, RunIndex: idx, Racy: bestRes.Racy, Tape: best, Violation: bestV.Msg, Log: bestRes.Log,
		Minimised: minimised, ShrinkRuns: runs, OrigTapeLen: orig,
	}
}

func trimZeros(t []uint32) []uint32 {
	for len(t) > 0 && t[len(t)-1] == 0 {
		t = t[:len(t)-1]
	}
	return t
}

// WriteJSON writes v to path.
func WriteJSON(path string, v any) error {
	b, err := json.MarshalIndent(v, "", " ")
	if err != nil {
		return err
	}
	return os.WriteFile(path, b, 0o644)
}

func clipLog(l []string, n int) []string {
	if len(l) <= n {
		return l
	}
	head := n * 3 / 4
	out := append([]string(nil), l[:head]...)
	out = append(out, fmt.Sprintf("… (%d lines omitted)", len(l)-n))
	return append(out, l[len(l)-(n-head):]...)
}
