package sim

import (
	udpClient "github.com/plgd-dev/go-coap/v3/udp/client"
)

// C05, the per-message-ID lock under a flood of duplicates: every duplicate of a request that is still inside its
// handler waits for the request's lock (on a reader loop of its own since F25). The lock map counts the holders and
// waiters of a key; whatever their number, the entry must live until the last of them is gone. Driven directly - a run
// over a real connection would need 65 536 datagrams.

func c05LockRefcountRun(e *Env) {
	t := e.Tape
	n := []int{3, 300, 30}[t.Choose(3)]
	if t.Choose(100) == 0 { // rarely (a run with that many goroutines costs a fifth of a second)
		n = []int{65535, 65536, 65537, 70000}[t.Choose(4)]
	}
	e.Real("udp/client.MutexMap (per-message-ID lock of handleReq)")
	mm := udpClient.NewMutexMap()
	holder := mm.Lock(int32(7))
	done := 0
	for i := 0; i < n; i++ {
		go func() {
			l := mm.LockFunc(int32(7), func() {})
			e.mu.Lock()
			done++
			e.mu.Unlock()
			l.Unlock()
		}()
	}
	e.Wait()
	e.NonTrivial()
	if n >= 65535 {
		e.Probe("lock.moreWaitersThanSixteenBits")
	}
	e.Logf("the request's handler holds the lock of message ID 7; %d duplicates wait for it", n)
	holder.Unlock()
	e.Wait()
	e.mu.Lock()
	d := done
	e.mu.Unlock()
	if d != n {
		e.Violate("C05.R6", "duplicates-stuck-behind-the-lock", "%d of %d duplicates got the lock after the handler had released it", d, n)
	}
	// the key is free again
	l := mm.Lock(int32(7))
	l.Unlock()
}
