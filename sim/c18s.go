package sim

import (
	"bytes"
	"context"
	"fmt"
	"net"
	"runtime/debug"
	"sort"
	"time"

	dtlsServer "github.com/plgd-dev/go-coap/v3/dtls/server"
	"github.com/plgd-dev/go-coap/v3/options"
	tcpClient "github.com/plgd-dev/go-coap/v3/tcp/client"
	tcpServer "github.com/plgd-dev/go-coap/v3/tcp/server"
	udpClient "github.com/plgd-dev/go-coap/v3/udp/client"
	udpServer "github.com/plgd-dev/go-coap/v3/udp/server"
)

// C18, server side: one real server (udp, dtls, tcp) with WithKeepAlive and 2-4 peers, each of which either answers
// every ping at once or is dead. What the monitor decides about one connection must not depend on the others: a
// peer that answers every ping is never closed, a dead one is closed after its own pings went unanswered - not
// earlier, not on somebody else's account.

type c18Peer struct {
	c            *c10Client
	alive        bool
	pings        int // distinct pings received
	pongs        int
	seenMID      map[uint16]bool
	closed       bool
	closedAt     time.Duration
	pingsAtClose int
}

func c18ServerRun(e *Env) {
	t := e.Tape
	kind := []string{"udp", "dtls", "tcp"}[t.Weighted(3, 2, 2)]
	period := []time.Duration{4 * time.Second, time.Second, 16 * time.Second}[t.Choose(3)]
	maxRetries := uint32(1 + t.Choose(3))
	nPeers := 2 + t.Choose(3)
	hsDur := []time.Duration{0, period / 2, period + time.Second, 3 * period}[t.Choose(4)]
	if hsDur > 4*time.Second {
		hsDur = 4 * time.Second // the servers give a handshake 5 s
	}
	timeout := period * time.Duration(maxRetries+1)
	closedByMonitor := map[string]int{}
	mon := &c10MonitorOpts{
		UDP: func() udpServer.Option {
			return options.WithKeepAlive(maxRetries, timeout, func(cc *udpClient.Conn) {
				e.mu.Lock()
				closedByMonitor[cc.RemoteAddr().String()]++
				e.mu.Unlock()
				e.Notef("keep-alive closes the connection of %s", cc.RemoteAddr())
				if debugSites {
					e.Notef("%s", debug.Stack())
				}
				_ = cc.Close()
			})
		},
		DTLS: func() dtlsServer.Option {
			return options.WithKeepAlive(maxRetries, timeout, func(cc *udpClient.Conn) {
				e.mu.Lock()
				closedByMonitor[cc.RemoteAddr().String()]++
				e.mu.Unlock()
				e.Notef("keep-alive closes the connection of %s", cc.RemoteAddr())
				_ = cc.Close()
			})
		},
		TCP: func() tcpServer.Option {
			return options.WithKeepAlive(maxRetries, timeout, func(cc *tcpClient.Conn) {
				e.mu.Lock()
				closedByMonitor[cc.RemoteAddr().String()]++
				e.mu.Unlock()
				e.Notef("keep-alive closes the connection of %s", cc.RemoteAddr())
				_ = cc.Close()
			})
		},
	}
	// tcp: the last (dead) peer loses its connection and connects again from the same address and port while the
	// application's on-close callback of the old connection is still running
	reconnect := kind == "tcp" && t.Chance(1, 3)
	reconnectAddr := UDPAddr("10.0.1."+fmt.Sprint(10+nPeers-1), 40000+nPeers-1)
	gate := make(chan struct{})
	gateOpen := false
	openGate := func() {
		if !gateOpen {
			gateOpen = true
			close(gate)
		}
	}
	e.OnCleanup(openGate)
	if reconnect {
		mon.OnTrack = func(remote string, n int, cc interface{ AddOnClose(func()) }) {
			if n == 1 && remote == (&net.TCPAddr{IP: reconnectAddr.IP, Port: reconnectAddr.Port}).String() {
				cc.AddOnClose(func() { <-gate })
			}
		}
	}
	w := c10NewWorldMon(e, kind, "run", 0, mon)
	e.Real("net/monitor/inactivity.Monitor", "net/monitor/inactivity.KeepAlive", "options.WithKeepAlive wiring of the servers (one monitor per accepted connection)")
	peers := make([]*c18Peer, nPeers)
	anyDead := false
	for i := range peers {
		p := &c18Peer{c: &c10Client{id: i, addr: UDPAddr("10.0.1."+fmt.Sprint(10+i), 40000+i)}, alive: t.Chance(1, 2), seenMID: map[uint16]bool{}}
		if i == nPeers-1 && !anyDead {
			p.alive = false // at least one dead peer
		}
		if !p.alive {
			anyDead = true
		}
		peers[i] = p
		w.clients = append(w.clients, p.c)
		if kind == "dtls" && hsDur > 0 {
			// a slow handshake (lossy link, slow peer): the records of the handshake are messages of the peer too, so the
			// idle period cannot start before the connection is established
			p.c.handshake = func(ctx context.Context) error {
				select {
				case <-time.After(hsDur):
					return nil
				case <-ctx.Done():
					return ctx.Err()
				}
			}
		}
		w.connect(p.c)
	}
	e.Wait()
	if kind == "dtls" && hsDur > 0 {
		e.Fault("handshake.slow")
		e.Sleep(hsDur)
		e.Wait()
	}
	// tcp: one more peer that asks for more than it reads - its socket buffer is full, the server's write to it blocks.
	// It is nobody's business but its own: the other connections' housekeeping goes on.
	if kind == "tcp" && !reconnect && t.Chance(1, 3) {
		st := &c10Client{id: 99, addr: UDPAddr("10.0.1.99", 49999)}
		w.connect(st)
		e.Wait()
		st.sc.peer.LimitOut(24)
		e.Fault("peer.stopsReading")
		e.Probe("peer.stalledWriter")
		e.Logf("peer 99 sends a request and does not read the answer (the server's write to it blocks)")
		st.sc.peer.InjectIn(EncodeTCP(&WMsg{Code: 2, Token: []byte{0x99}, Opts: []WOpt{{Num: OptURIPath, Val: []byte("echo")}}, Payload: bytes.Repeat([]byte("x"), 200)}))
		st.sc.peer.ReleaseIn(1 << 30)
		e.Wait()
	}
	// tcp: two connections from one remote address and port (to two local addresses of a wildcard-bound server - a legal
	// pair of 4-tuples). Both peers are dead; both connections have to go.
	var twins []*c10Client
	if kind == "tcp" && !reconnect && t.Chance(1, 4) {
		for i := 0; i < 2; i++ {
			tw := &c10Client{id: 90 + i, addr: UDPAddr("10.0.1.77", 47777)}
			w.connect(tw)
			e.Wait()
			twins = append(twins, tw)
		}
		e.Fault("peer.twoConnectionsFromOneAddress")
		e.Probe("server.twoConnectionsFromOneRemoteAddress")
		e.Logf("two connections from 10.0.1.77:47777 are open")
	}
	established := e.Now()
	e.Logf("cfg server=%s period=%v maxRetries=%d peers=%d", kind, period, maxRetries, nPeers)
	for _, p := range peers {
		e.Logf("peer %d (%s) alive=%v", p.c.id, p.c.addr, p.alive)
	}

	send := func(p *c18Peer, m *WMsg) {
		switch kind {
		case "udp":
			d := w.dn.Inject(p.c.addr, w.srvAddr, EncodeUDP(m))
			w.dn.Take(d)
			w.dn.Deliver(d)
		case "dtls":
			p.c.pc.Deliver(EncodeUDP(m))
		default:
			p.c.sc.peer.InjectIn(EncodeTCP(m))
			p.c.sc.peer.ReleaseIn(1 << 30)
		}
	}
	recv := func(p *c18Peer) []*WMsg {
		var out []*WMsg
		switch kind {
		case "udp":
			for _, d := range w.dn.PendingList() {
				if d.Dst.String() == p.c.addr.String() {
					w.dn.Take(d)
					if m, err := DecodeUDP(d.Data); err == nil {
						out = append(out, m)
					}
				}
			}
		case "dtls":
			for _, b := range p.c.pc.TakeOut() {
				if m, err := DecodeUDP(b); err == nil {
					out = append(out, m)
				}
			}
		default:
			p.c.rx = append(p.c.rx, p.c.sc.peer.TakeOut()...)
			for len(p.c.rx) > 0 {
				m, k, err := DecodeTCP(p.c.rx)
				if err != nil || k == 0 {
					break
				}
				p.c.rx = p.c.rx[k:]
				out = append(out, m)
			}
		}
		return out
	}
	if reconnect {
		p := peers[nPeers-1]
		e.Fault("peer.reconnectsWhileOldConnectionEnds")
		e.Logf("peer %d loses its connection; the application's on-close callback of that connection takes its time", p.c.id)
		p.c.sc.peer.PeerFIN()
		e.Wait()
		e.Logf("peer %d connects again from %s", p.c.id, p.c.addr)
		w.connect(p.c)
		e.Wait()
		e.Logf("the on-close callback of the old connection returns")
		openGate()
		e.Wait()
		e.Probe("server.reconnectWhileOldConnectionEnds")
	}
	live := func(p *c18Peer) bool {
		w.mu.Lock()
		defer w.mu.Unlock()
		return w.newConns[p.c.addr.String()] > 0
	}
	if kind == "dtls" && hsDur > 0 {
		// right after the (slow) handshake: a quarter of a period later nobody can have been idle for a full period
		e.Sleep(period / 4)
		w.tick(time.Now())
		e.Wait()
		e.Logf("advance %v + tick (right after the handshake)", period/4)
		for _, p := range peers {
			for _, m := range recv(p) {
				if m.Type == TCON && m.Code == 0 {
					e.Violate("C18.R1", "ping-without-idle-period:after-handshake", "peer %d was pinged %v after its connection was established (handshake took %v, period %v): the idle period started before the handshake had finished", p.c.id, e.Now()-established, hsDur, period)
				}
			}
			if !live(p) {
				e.Violate("C18.R1", "closed-without-a-full-idle-period:after-handshake", "peer %d was closed %v after its connection was established (handshake took %v, period %v)", p.c.id, e.Now()-established, hsDur, period)
				return
			}
		}
	}
	// every peer opens its connection with one request (a datagram server learns about a peer from its first message)
	for _, p := range peers {
		send(p, &WMsg{Type: TNON, Code: 1, MID: uint16(100 + p.c.id), Token: []byte{0xc0, byte(p.c.id)}, Opts: []WOpt{{Num: OptURIPath, Val: []byte("echo")}}})
		e.Wait()
		recv(p)
		if !live(p) {
			e.Violate("HARNESS", "server-connection-missing", "peer %d has no connection object after its first request", p.c.id)
			return
		}
	}
	// peers react to what the server sent them: alive ones answer every ping at once
	react := func() {
		for round := 0; round < 3; round++ {
			any := false
			for _, p := range peers {
				for _, m := range recv(p) {
					isPing := (kind != "tcp" && m.Type == TCON && m.Code == 0) || (kind == "tcp" && m.Code == 0xe2)
					if !isPing {
						continue
					}
					if kind != "tcp" {
						if p.seenMID[m.MID] {
							continue // a retransmitted copy of a ping already counted (and answered, if alive)
						}
						p.seenMID[m.MID] = true
					}
					p.pings++
					e.Probe("keepalive.pingSent")
					e.Logf("server pings peer %d (ping #%d)", p.c.id, p.pings)
					if p.alive {
						p.pongs++
						if kind == "tcp" {
							send(p, &WMsg{Code: 0xe3, Token: m.Token})
						} else {
							send(p, &WMsg{Type: TRST, Code: 0, MID: m.MID})
						}
						any = true
					}
				}
			}
			if !any {
				break
			}
			e.Wait()
		}
	}
	checkClosed := func() {
		for _, p := range peers {
			if p.closed || live(p) {
				continue
			}
			p.closed, p.closedAt, p.pingsAtClose = true, e.Now(), p.pings
			if e.Now() < established+period {
				e.Violate("C18.R1", "closed-without-a-full-idle-period:after-handshake", "peer %d was closed %v after its connection was established (handshake took %v, period %v): the idle period started before the handshake had finished", p.c.id, e.Now()-established, hsDur, period)
			}
			e.Logf("connection of peer %d is closed (pings sent to it so far: %d)", p.c.id, p.pings)
			if p.alive {
				e.Violate("C18.R5", "answering-peer-closed", "peer %d answered every one of its %d pings at once and its connection was closed by keep-alive (maxRetries=%d; other peers: %s)", p.c.id, p.pings, maxRetries, c18Others(peers, p))
			} else if uint32(p.pings) < maxRetries {
				e.Violate("C18.R3", "keepalive-closed-before-retries-exhausted", "dead peer %d was closed after only %d pings of its own went unanswered (maxRetries=%d; other peers: %s)", p.c.id, p.pings, maxRetries, c18Others(peers, p))
			}
		}
	}

	// udp: the application looks connections up by address (Server.NewConn) whenever it has something for a peer -
	// that is the application's activity, not a sign of life of the peer
	lookups := kind == "udp" && t.Chance(1, 3)
	lookup := func() {
		if !lookups {
			return
		}
		e.Wait() // (a close decided at the last tick has happened by now: a closed connection is not looked up again)
		checkClosed()
		open := func(p *c18Peer) bool {
			w.mu.Lock()
			defer w.mu.Unlock()
			cs := w.conns[p.c.addr.String()]
			if len(cs) == 0 {
				return false
			}
			cc, ok := cs[len(cs)-1].(interface{ Context() context.Context })
			return ok && cc.Context().Err() == nil
		}
		for _, p := range peers {
			if !p.alive && !p.closed && live(p) && open(p) {
				if _, err := w.udpSrv.NewConn(p.c.addr); err == nil {
					e.Probe("server.applicationLooksUpDeadPeer")
				}
			}
		}
	}
	nSteps := int(maxRetries) + 3 + t.Choose(6)
	for i := 0; i < nSteps && e.Budget(); i++ {
		lookup()
		switch t.Weighted(5, 2) {
		case 0:
			dt := period + []time.Duration{1, time.Millisecond, time.Second, period}[t.Choose(4)]
			e.Sleep(dt)
			e.Fault("tick")
			e.NonTrivial()
			w.tick(time.Now())
			e.Wait()
			e.Logf("advance %v + tick", dt)
		default:
			// an alive peer sends an ordinary request
			var cands []*c18Peer
			for _, p := range peers {
				if p.alive && !p.closed {
					cands = append(cands, p)
				}
			}
			if len(cands) == 0 {
				continue
			}
			p := cands[t.Choose(len(cands))]
			e.Sleep(period / 3)
			e.Fault("msg.received")
			e.Logf("peer %d sends a request", p.c.id)
			send(p, &WMsg{Type: TNON, Code: 1, MID: uint16(200 + i), Token: []byte{0xc1, byte(i)}, Opts: []WOpt{{Num: OptURIPath, Val: []byte("echo")}}})
			e.Wait()
		}
		react()
		checkClosed()
	}
	// the dead ones must be gone after maxRetries+2 further late ticks with nothing received from them
	for i := 0; i < int(maxRetries)+2; i++ {
		e.Sleep(period + time.Second)
		lookup()
		w.tick(time.Now())
		e.Wait()
		react()
		checkClosed()
	}
	for _, tw := range twins {
		// the server closes a connection it gives up on: the peer's end sees the end of the stream
		if !tw.sc.peer.isClosed() {
			e.Violate("C18.R2", "dead-peer-never-closed:second-connection-from-the-same-address", "one of the two connections from %s (both silent) is still open after %d late ticks beyond the retries (maxRetries=%d)", tw.addr, maxRetries+2, maxRetries)
			break
		}
	}
	for _, p := range peers {
		if !p.alive && !p.closed {
			e.Violate("C18.R2", "dead-peer-never-closed", "dead peer %d (pings sent: %d, none answered) still has its connection after %d late ticks beyond the retries (maxRetries=%d; other peers: %s)", p.c.id, p.pings, maxRetries+2, maxRetries, c18Others(peers, p))
		}
	}
	e.mu.Lock()
	var twice []string
	for r, n := range closedByMonitor {
		limit := 1
		if len(twins) > 0 && r == (&net.TCPAddr{IP: twins[0].addr.IP, Port: twins[0].addr.Port}).String() {
			limit = 2 // two connections share this remote address: one callback each
		}
		if n > limit {
			twice = append(twice, r)
		}
	}
	e.mu.Unlock()
	sort.Strings(twice)
	if len(twice) > 0 {
		e.Violate("C18.R6", "on-inactive-called-twice", "the on-inactive callback ran more than once for %v", twice)
	}
}

func c18Others(peers []*c18Peer, me *c18Peer) string {
	s := ""
	for _, p := range peers {
		if p != me {
			s += fmt.Sprintf("[peer %d alive=%v pings=%d closed=%v]", p.c.id, p.alive, p.pings, p.closed)
		}
	}
	return s
}
