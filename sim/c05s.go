package sim

import (
	"bytes"
	"fmt"
	"time"

	"github.com/plgd-dev/go-coap/v3/message"
	"github.com/plgd-dev/go-coap/v3/message/codes"
	"github.com/plgd-dev/go-coap/v3/mux"
	coapNet "github.com/plgd-dev/go-coap/v3/net"
	"github.com/plgd-dev/go-coap/v3/options"
	udpClient "github.com/plgd-dev/go-coap/v3/udp/client"
	udpServer "github.com/plgd-dev/go-coap/v3/udp/server"
)

// C05 on a server: de-duplication state lives in the server's per-peer connection, so it only works if every copy
// of a request reaches the same connection object. A real udp server on a wildcard-bound socket; 1-2 scripted
// peers send requests and re-send them (same message ID); in between the application opens a connection of its
// own to the peer (Server.NewConn), housekeeping ticks pass, other peers talk.

func c05ServerRun(e *Env) {
	t := e.Tape
	dn := NewDNet(e)
	reach := UDPAddr("10.0.0.100", 5683)
	sock := dn.WildcardSocket(reach)
	l := coapNet.NewVerifUDPConn("udp", sock)
	e.OnCleanup(func() { coapNet.VerifForgetUDPConn(l) })
	type reqState struct {
		peer    int
		mid     uint16
		raw     []byte
		con     bool
		runs    int
		replies []*WMsg
		sent    int
		// why the peer's connection object was replaced between the first copy and a later one ("" = it was not)
		replaced string
	}
	var reqs []*reqState
	var peerAddrOf func(i int) string
	router := mux.NewRouter()
	router.DefaultHandle(mux.HandlerFunc(func(rw mux.ResponseWriter, r *mux.Message) {
		if r.Code() == codes.Empty {
			return
		}
		n := ParseNonce(&WMsg{Opts: Snapshot(r.Message).Opts})
		e.mu.Lock()
		k := 0
		if n >= 0 && n < len(reqs) {
			reqs[n].runs++
			k = reqs[n].runs
		}
		e.mu.Unlock()
		e.Notef("handler runs for request %d (run #%d)", n, k)
		_ = rw.SetResponse(codes.Content, message.TextPlain, bytes.NewReader([]byte(fmt.Sprintf("reply-%d-run%d", n, k))))
	}))
	// the inactivity monitor of the server-side connections: practically off, or the 16 s of the default configuration
	idle := []time.Duration{100000 * time.Second, 16 * time.Second}[t.Choose(2)]
	var ticks []func(now time.Time) bool
	srv := udpServer.New(options.WithMux(router), c10UDPSeam{mid: int32(t.Choose(65536)), tick: func(f func(now time.Time) bool) { ticks = append(ticks, f) }},
		options.WithErrors(func(error) {}),
		options.WithInactivityMonitor(idle, func(c *udpClient.Conn) {
			e.Notef("inactivity monitor closes the connection of %s", c.RemoteAddr())
			for _, r := range reqs {
				if peerAddrOf(r.peer) == c.RemoteAddr().String() { // (takes precedence: this close certainly drops the object)
					r.replaced = "closed-by-inactivity-monitor"
				}
			}
			_ = c.Close()
		}))
	go func() { _ = srv.Serve(l) }()
	e.OnCleanup(func() { srv.Stop(); _ = l.Close() })
	e.Real("udp/server.Server (peer table on a wildcard-bound socket, NewConn)", "udp/client.Conn (response cache per connection)")
	e.Wait()
	nPeers := 1 + t.Choose(2)
	peers := make([]*struct{ addr string }, nPeers)
	for i := range peers {
		i := i
		a := UDPAddr("10.0.3."+fmt.Sprint(1+i), 40000+i)
		peers[i] = &struct{ addr string }{a.String()}
		dn.ScriptedPeer(a, func(d *Dgram) {
			m, err := DecodeUDP(d.Data)
			if err != nil {
				return
			}
			for _, r := range reqs {
				// replies are attributed by token (every request has its own); the message ID of a reply to a
				// non-confirmable request is the server's and may coincide with some request's
				if r.peer == i && bytes.Equal(m.Token, []byte{0x5c, byte(indexOfReq(reqs, r))}) && m.Code != 0 {
					r.replies = append(r.replies, m)
				}
			}
		})
	}
	peerAddrOf = func(i int) string { return peers[i].addr }
	e.Logf("cfg peers=%d idle=%v", nPeers, idle)
	deliverAll := func() {
		for _, d := range dn.PendingList() {
			dn.Take(d)
			dn.Deliver(d)
		}
		e.Wait()
		for _, d := range dn.PendingList() {
			dn.Take(d)
			dn.Deliver(d)
		}
		e.Wait()
	}
	newConnDone := make([]bool, nPeers)
	for step := 0; step < 4+t.Choose(10) && e.Budget(); step++ {
		switch t.Weighted(4, 4, 2, 2, 1) {
		case 4: // line noise, a broken sender, a spoofer: something that is no CoAP message arrives from a peer's address
			p := t.Choose(nPeers)
			e.Fault("dgram.malformed")
			e.Probe("peer.malformedDatagram")
			e.Logf("a malformed datagram arrives from the address of peer %d", p)
			for _, r := range reqs {
				if r.peer == p && r.replaced == "" {
					r.replaced = "malformed-datagram"
				}
			}
			dn.Inject(UDPAddrFrom(peers[p].addr), reach, [][]byte{{0x49, 0x02, 0x12, 0x34}, {0x40}, {0xff, 0xff, 0xff}}[t.Choose(3)])
			deliverAll()
		case 0: // a new request
			if len(reqs) >= 6 {
				continue
			}
			p := t.Choose(nPeers)
			n := len(reqs)
			r := &reqState{peer: p, mid: uint16(300 + n), con: t.Chance(2, 3)}
			typ := TNON
			if r.con {
				typ = TCON
			}
			r.raw = EncodeUDP(&WMsg{Type: typ, Code: 2, MID: r.mid, Token: []byte{0x5c, byte(n)}, Opts: []WOpt{{Num: OptURIPath, Val: []byte("d")}, {Num: OptURIQuery, Val: []byte(fmt.Sprintf("n=%d", n))}}, Payload: []byte("x")})
			e.mu.Lock()
			reqs = append(reqs, r)
			e.mu.Unlock()
			r.sent++
			e.Logf("peer %d sends request %d (mid %d, con=%v)", p, n, r.mid, r.con)
			dn.Inject(UDPAddrFrom(peers[p].addr), reach, r.raw)
			deliverAll()
		case 1: // a copy of an earlier request arrives again
			if len(reqs) == 0 {
				continue
			}
			r := reqs[t.Choose(len(reqs))]
			r.sent++
			e.Fault("dgram.dup")
			e.NonTrivial()
			e.Logf("peer %d re-sends request %d (copy #%d)", r.peer, indexOfReq(reqs, r), r.sent)
			dn.Inject(UDPAddrFrom(peers[r.peer].addr), reach, r.raw)
			deliverAll()
		case 2: // the application opens a connection of its own to a peer it already knows
			p := t.Choose(nPeers)
			if newConnDone[p] {
				continue
			}
			newConnDone[p] = true
			e.Fault("server.newConnToKnownPeer")
			cc, err := srv.NewConn(UDPAddrFrom(peers[p].addr))
			e.Logf("application calls Server.NewConn(peer %d): err=%v", p, err != nil)
			_ = cc
			e.Wait()
		default:
			dt := []time.Duration{time.Second, 30 * time.Second, 100 * time.Second}[t.Choose(3)]
			e.Sleep(dt)
			now := time.Now()
			fs := append([]func(now time.Time) bool(nil), ticks...)
			go func() {
				for _, f := range fs {
					f(now)
				}
			}()
			e.Wait()
			e.Logf("advance %v + tick", dt)
		}
	}
	// oracle: within the lifetime (the run is far shorter than 247 s of ticks? no: sums may exceed it, so judge per request)
	e.mu.Lock()
	defer e.mu.Unlock()
	for n, r := range reqs {
		if e.Now() > 240*time.Second {
			break // copies may legitimately be fresh again; C05's main scenario covers the lifetime boundary
		}
		if r.runs > 1 {
			sig, why := "handler-re-executed:server-connection", ""
			if r.replaced != "" {
				// the de-duplication state lives in the connection object: whatever makes the server drop that object
				// within the exchange lifetime makes it forget the request
				sig += ":" + r.replaced
				why = " (" + r.replaced + " in between)"
			}
			e.Violate("C05.R1", sig, "request %d of peer %d (mid %d) was sent %d times and the handler ran %d times%s", n, r.peer, r.mid, r.sent, r.runs, why)
			continue
		}
		for i := 1; i < len(r.replies); i++ {
			a, b := r.replies[0], r.replies[i]
			if a.Code != b.Code || !bytes.Equal(a.Token, b.Token) || !bytes.Equal(a.Payload, b.Payload) {
				e.Violate("C05.R3", "duplicate-reply-differs:server-connection", "request %d: copy #%d was answered %s, the first %s", n, i+1, b, a)
			}
		}
	}
}

func indexOfReq[T any](rs []*T, r *T) int {
	for i, x := range rs {
		if x == r {
			return i
		}
	}
	return -1
}
