package sim

import (
	"bytes"
	"context"
	"time"

	"github.com/plgd-dev/go-coap/v3/message/pool"
)

// C12, "late block": a block of a block-wise response that arrives a second time (the network duplicated the
// piggybacked acknowledgement that carried it) while the final block of the same transfer is being processed by
// another reader loop. Acknowledgements are not de-duplicated by message ID, so both are inside the block-wise layer
// at once; the transfer's guard lets them in one after the other. The first hands the assembled response to the
// caller - from then on it is the caller's; what the second does with "the transfer's message" it does to that.

func c12LateBlock(e *Env) {
	t := e.Tape
	if t.Chance(1, 3) {
		c12LateBlockJoins(e)
		return
	}
	tr := []string{TrUDP, TrDTLS}[t.Choose(2)]
	cfg := SimUDPConfig(3000)
	cfg.TransmissionNStart = 16
	cfg.TransmissionAcknowledgeTimeout = 1000 * time.Second
	cfg.BlockwiseEnable = true
	w := NewCWorld(e, CWorldCfg{Transport: tr, UDP: cfg})
	if w == nil {
		return
	}
	e.Wait()
	w.Pump()
	var reqs []*WMsg
	w.OnRecv = func(m *WMsg) {
		if m.Code >= 1 && m.Code <= 4 {
			reqs = append(reqs, m)
		}
	}
	dupOfFirst := t.Chance(1, 2) // which block arrives twice: block 0 or the final one
	atOnce := t.Chance(1, 3)     // the application is done with the response the moment it gets it
	head := bytes.Repeat([]byte{'h'}, 16)
	tail := []byte("tail!")
	e.Logf("cfg transport=%s duplicate-of=%s release-at-once=%v", tr, map[bool]string{true: "block 0", false: "final block"}[dupOfFirst], atOnce)

	a := e.NewCall("get-big", 800, nil, 100*time.Second)
	a.ReleaseAtOnce = atOnce
	if !atOnce {
		a.ReadLater = 3
		a.OnChanged = func(was, now *RespInfo) {
			e.Violate("C12.R5", "response-changed-in-callers-hands:late-block", "the response of the block-wise Get was %s when the call returned and is %s three phases later, before the caller released it", was, now)
		}
	}
	e.Start(a, func(ctx context.Context) (*pool.Message, error) { return w.API.Get(ctx, "/big") }, w.API.ReleaseMessage)
	e.Wait()
	w.Pump()
	if len(reqs) != 1 {
		return
	}
	blk := func(req *WMsg, num uint32, more bool, pl []byte) *WMsg {
		return &WMsg{Type: TACK, Code: 0x45, MID: req.MID, Token: req.Token, Payload: pl, Opts: []WOpt{UintOpt(OptBlock2, BlockOpt(num, more, 0))}}
	}
	first := w.Queue(blk(reqs[0], 0, true, head), "block-0")
	first.NoDup, first.NoDrop = true, true
	w.Emit(first, dupOfFirst)
	e.Wait()
	w.Pump()
	if len(reqs) != 2 {
		return
	}
	// the final block: its reader loop is stopped while it holds the transfer's guard
	e.EnableParkAll("blockwise.receive.holdingGuard")
	final := w.Queue(blk(reqs[1], 1, false, tail), "block-1 (final)")
	final.NoDup, final.NoDrop = true, true
	w.Emit(final, !dupOfFirst)
	e.Wait()
	w.Pump()
	e.DisableParkAll("blockwise.receive.holdingGuard")
	parked := e.Parked()
	if len(parked) != 1 {
		e.Probe("lateblock.notParked")
		return
	}
	// an unrelated request of another goroutine: the connection starts a second reader loop for it
	b := e.NewCall("get-other", 801, nil, 100*time.Second)
	b.ReleaseAtOnce = true
	e.Start(b, func(ctx context.Context) (*pool.Message, error) { return w.API.Get(ctx, "/other") }, w.API.ReleaseMessage)
	e.Wait()
	w.Pump()
	// the copy arrives: it finds the transfer and waits for the guard
	dup := first
	if !dupOfFirst {
		dup = final
	}
	e.Fault("msg.dup")
	e.Logf("the network delivers a second copy of %s", dup.Label)
	w.Emit(dup, false)
	e.Wait()
	w.Pump()
	e.NonTrivial()
	e.Probe("lateblock.copyWaitsForTheGuard")
	// the final block goes on: the response is handed to the caller
	e.Resume(parked[0])
	for i := 0; i < 6; i++ {
		e.Wait()
		w.Pump()
		e.Sleep(time.Millisecond)
	}
	if !a.Done() {
		e.Violate("C12.R6", "answered-call-did-not-return", "both blocks were delivered and the block-wise Get has not returned")
		return
	}
	if ri, err := a.Result(); err == nil && ri != nil {
		if want := append(append([]byte(nil), head...), tail...); !bytes.Equal(ri.Payload, want) {
			e.Violate("C12.R5", "response-differs-from-what-was-sent:late-block", "the block-wise Get returned a body of %d bytes, the peer sent %d", len(ri.Payload), len(want))
		}
	}
	// let the other request end
	for _, m := range reqs {
		if len(m.Opts) > 0 && bytes.Equal(m.Opts[0].Val, []byte("other")) {
			it := w.Queue(&WMsg{Type: TACK, Code: 0x45, MID: m.MID, Token: m.Token, Payload: []byte("o")}, "answer-other")
			w.Emit(it, false)
		}
	}
	for i := 0; i < 3; i++ {
		e.Wait()
		w.Pump()
		e.Sleep(time.Millisecond)
	}
}

// The other way into the same wait: a copy of block 0 that finds no transfer yet and is stopped on the threshold of
// starting one (the cache's LoadOrStore); meanwhile the other copy starts the transfer, the final block arrives and
// holds the guard. The stopped copy then finds the transfer stored, joins it and waits for the guard - which it gets
// when the assembled response has been handed to the caller.
func c12LateBlockJoins(e *Env) {
	t := e.Tape
	tr := []string{TrUDP, TrDTLS}[t.Choose(2)]
	cfg := SimUDPConfig(3000)
	cfg.TransmissionNStart = 16
	cfg.TransmissionAcknowledgeTimeout = 1000 * time.Second
	cfg.BlockwiseEnable = true
	w := NewCWorld(e, CWorldCfg{Transport: tr, UDP: cfg})
	if w == nil {
		return
	}
	e.Wait()
	w.Pump()
	var reqs []*WMsg
	w.OnRecv = func(m *WMsg) {
		if m.Code >= 1 && m.Code <= 4 {
			reqs = append(reqs, m)
		}
	}
	atOnce := t.Chance(1, 3)
	head := bytes.Repeat([]byte{'h'}, 16)
	tail := []byte("tail!")
	e.Logf("cfg transport=%s a copy of block 0 joins the transfer through LoadOrStore; release-at-once=%v", tr, atOnce)
	a := e.NewCall("get-big", 800, nil, 100*time.Second)
	a.ReleaseAtOnce = atOnce
	if !atOnce {
		a.ReadLater = 3
		a.OnChanged = func(was, now *RespInfo) {
			e.Violate("C12.R5", "response-changed-in-callers-hands:late-block", "the response of the block-wise Get was %s when the call returned and is %s three phases later, before the caller released it", was, now)
		}
	}
	e.Start(a, func(ctx context.Context) (*pool.Message, error) { return w.API.Get(ctx, "/big") }, w.API.ReleaseMessage)
	e.Wait()
	w.Pump()
	if len(reqs) != 1 {
		return
	}
	blk := func(req *WMsg, num uint32, more bool, pl []byte) *WMsg {
		return &WMsg{Type: TACK, Code: 0x45, MID: req.MID, Token: req.Token, Payload: pl, Opts: []WOpt{UintOpt(OptBlock2, BlockOpt(num, more, 0))}}
	}
	// first copy of block 0: stopped before it stores the transfer it is about to start
	e.EnableParkAll("cache.LoadOrStore.afterNow")
	first := w.Queue(blk(reqs[0], 0, true, head), "block-0")
	first.NoDup, first.NoDrop = true, true
	w.Emit(first, true)
	e.Wait()
	w.Pump()
	e.DisableParkAll("cache.LoadOrStore.afterNow")
	stopped := e.Parked()
	if len(stopped) != 1 {
		e.Probe("lateblock.notParked")
		return
	}
	// an unrelated request: a second reader loop
	b := e.NewCall("get-other", 801, nil, 100*time.Second)
	b.ReleaseAtOnce = true
	e.Start(b, func(ctx context.Context) (*pool.Message, error) { return w.API.Get(ctx, "/other") }, w.API.ReleaseMessage)
	e.Wait()
	w.Pump()
	// second copy of block 0: starts the transfer, block 1 is asked for
	e.Fault("msg.dup")
	w.Emit(first, false)
	e.Wait()
	w.Pump()
	var ask1 *WMsg
	for _, m := range reqs {
		if v, ok := m.OptUint(OptBlock2); ok && v>>4 == 1 {
			ask1 = m
		}
	}
	if ask1 == nil {
		e.Probe("lateblock.noRequestForBlock1")
		for _, pg := range stopped {
			e.Resume(pg)
		}
		e.Wait()
		return
	}
	e.EnableParkAll("blockwise.receive.holdingGuard")
	final := w.Queue(blk(ask1, 1, false, tail), "block-1 (final)")
	final.NoDup, final.NoDrop = true, true
	w.Emit(final, false)
	e.Wait()
	w.Pump()
	e.DisableParkAll("blockwise.receive.holdingGuard")
	var holder *parkedG
	for _, pg := range e.Parked() {
		if pg != stopped[0] {
			holder = pg
		}
	}
	if holder == nil {
		e.Probe("lateblock.notParked")
		e.Resume(stopped[0])
		e.Wait()
		return
	}
	// the stopped copy goes on: the transfer is there now, it joins and waits for the guard
	e.Resume(stopped[0])
	e.Wait()
	w.Pump()
	e.NonTrivial()
	e.Probe("lateblock.copyJoinsThroughLoadOrStore")
	e.Resume(holder)
	for i := 0; i < 6; i++ {
		e.Wait()
		w.Pump()
		e.Sleep(time.Millisecond)
	}
	if !a.Done() {
		e.Violate("C12.R6", "answered-call-did-not-return", "both blocks were delivered and the block-wise Get has not returned")
		return
	}
	if ri, err := a.Result(); err == nil && ri != nil {
		if want := append(append([]byte(nil), head...), tail...); !bytes.Equal(ri.Payload, want) {
			e.Violate("C12.R5", "response-differs-from-what-was-sent:late-block-joins", "the block-wise Get returned a body of %d bytes, the peer sent %d", len(ri.Payload), len(want))
		}
	}
	for _, m := range reqs {
		if len(m.Opts) > 0 && bytes.Equal(m.Opts[0].Val, []byte("other")) {
			it := w.Queue(&WMsg{Type: TACK, Code: 0x45, MID: m.MID, Token: m.Token, Payload: []byte("o")}, "answer-other")
			w.Emit(it, false)
		}
	}
	for i := 0; i < 3; i++ {
		e.Wait()
		w.Pump()
		e.Sleep(time.Millisecond)
	}
}
