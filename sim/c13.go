package sim

import (
	"bytes"
	"context"
	"fmt"
	"sort"
	"time"

	"github.com/plgd-dev/go-coap/v3/message"
	"github.com/plgd-dev/go-coap/v3/message/codes"
	"github.com/plgd-dev/go-coap/v3/message/pool"
	"github.com/plgd-dev/go-coap/v3/net/blockwise"
	"github.com/plgd-dev/go-coap/v3/net/client"
	"github.com/plgd-dev/go-coap/v3/options"
	"github.com/plgd-dev/go-coap/v3/tcp"
)

// C13 — no per-exchange state outlives the exchange.
//
// A drain-and-audit monitor: exchanges of every kind end in every outcome, then the
// simulator advances fake time past the largest deadline created in the run (request
// contexts, block-wise transfer timeout, EXCHANGE_LIFETIME) with housekeeping ticks
// and reads the connection's tables through the read-only accessors (hook H-INTRO).

func init() {
	Register(&PropDef{
		ID:    "C13",
		Title: "No per-exchange state outlives the exchange",
		Rule: "S-AUDIT/scripted: 2-8 exchanges (request, Do with a duplicate token, observe, observation cancel, ping, confirmable one-way write) on one real connection (four transports, block-wise on/off, limiter off/1), each ending as the tape says (answered, error code, peer silence, reset, malformed block option, context cancel, deadline); S-AUDIT/pair: the block-wise workload of C04 between two real endpoints under loss/duplication/cancellation. " +
			"Afterwards: every context ended, time advanced past 247 s with ticks, tables read. non-trivial = at least one exchange ended without a normal answer; distinct = distinct event-log hash",
		Scenarios: []Scenario{
			{Name: "S-AUDIT/scripted", Weight: 3, Run: c13Run},
			{Name: "S-AUDIT/ended-by-peer-or-housekeeping", Weight: 1, Run: c13EndedRun},
			{Name: "S-AUDIT/pair-udp", Weight: 2, Run: func(e *Env) { c04RunOpt(e, TrUDP, true, true) }},
			{Name: "S-AUDIT/pair-tcp", Weight: 1, Run: func(e *Env) { c04RunOpt(e, TrTCP, false, true) }},
			// the keep-alive workload of C18: its pings are exchanges too - an answered or superseded ping leaves nothing behind
			{Name: "S-AUDIT/keep-alive", Weight: 1, Run: func(e *Env) {
				e.RuleRename, e.RulePrefix = [2]string{"C18.R7", "C13.R8"}, "C13."
				c18Run(e, true)
			}},
		},
		Quick:    150000,
		Thorough: 2000000,
		Require:  []string{"ping.asyncAnswered", "tick.foundInactive", "exchange.endedNormally", "exchange.endedWithError", "peer.silence", "transfer.multiBlock", "ended.byReset", "ended.byExhaustion", "ended.byTransferTimeout"},
		Assume: []string{
			"the audit happens after every call has returned, every context has ended and simulated time has passed the largest deadline of the run (request deadlines, 5 s block-wise timeout, 247 s exchange lifetime) with housekeeping ticks in between",
			"observations that are still live (registered, supported, not cancelled) may stay in the observation table; nothing else may stay anywhere",
		},
	})
}

// auditTables raises a C13 violation for every table that still holds an entry.
func auditTables(e *Env, who string, sizes map[string]int, liveObs int) {
	keys := make([]string, 0, len(sizes))
	for k := range sizes {
		keys = append(keys, k)
	}
	sort.Strings(keys)
	rules := map[string]string{"tokenHandlers": "C13.R1", "midHandlers": "C13.R2", "responseCache": "C13.R3", "msgIDLocks": "C13.R4",
		"bwReceiving": "C13.R5", "bwSending": "C13.R5", "limiterEndpoints": "C13.R6", "limiterWaiters": "C13.R6", "observations": "C13.R7"}
	for _, k := range keys {
		n := sizes[k]
		want := 0
		if k == "observations" {
			want = liveObs
		}
		if n != want {
			e.Violate(rules[k], "table-not-empty:"+k, "%s: table %s holds %d entries after all exchanges ended and every deadline passed (expected %d)", who, k, n, want)
		}
	}
	e.Logf("audit %s: %v (live observations %d)", who, sizes, liveObs)
}

func c13Run(e *Env) {
	t := e.Tape
	tr := PickTransport(t)
	bw := t.Chance(1, 2)
	limit := []int64{0, 1}[t.Choose(2)]
	nEx := 2 + t.Choose(7)
	var w *CWorld
	if IsDatagram(tr) {
		cfg := SimUDPConfig(int32(t.Choose(65536)))
		cfg.TransmissionNStart = []uint32{16, 1, 2}[t.Choose(3)]
		cfg.TransmissionAcknowledgeTimeout = 2 * time.Second
		cfg.TransmissionMaxRetransmit = 2
		cfg.BlockwiseEnable = bw
		cfg.BlockwiseTransferTimeout = 5 * time.Second
		cfg.LimitClientParallelRequests = limit
		w = NewCWorld(e, CWorldCfg{Transport: tr, UDP: cfg})
	} else {
		w = NewCWorld(e, CWorldCfg{Transport: tr, TCPOpts: []tcp.Option{
			options.WithBlockwise(bw, blockwise.SZX16, 5*time.Second),
			options.WithLimitClientParallelRequest(limit), options.WithLimitClientEndpointParallelRequest(0), options.WithCloseSocket(),
		}})
	}
	if w == nil {
		return
	}
	e.Wait()
	if !IsDatagram(tr) && bw {
		// enable block-wise on the stream connection (any RFC 8323 peer may announce it)
		it := w.Queue(&WMsg{Code: 0xe1, Token: []byte{1}, Opts: []WOpt{{Num: OptTCPBlockWise}}}, "csm")
		w.Emit(it, false)
		e.Wait()
	}
	w.Pump()
	e.Logf("cfg transport=%s bw=%v limit=%d exchanges=%d", tr, bw, limit, nEx)

	type exch struct {
		idx     int
		kind    int // 0 get, 1 do-dup-token, 2 observe, 3 cancel-observation, 4 ping, 5 write, 6 big post (block-wise), 7 async ping without cancel
		call    *Call
		outcome int // peer: 0 answer, 1 error code, 2 silence, 3 reset, 4 malformed block
	}
	var exs []*exch
	type liveOb struct {
		ob  client.Observation
		idx int
	}
	var liveObs []liveOb
	obsToken := map[int][]byte{} // exchange index -> token of its registration, as seen on the wire
	regOutcome := map[string]int{}
	onewayAnswered := map[int]bool{}
	onewayOpen := false
	liveCount := 0
	w.OnRecv = func(m *WMsg) {
		if IsDatagram(tr) && (m.Type == TACK || m.Type == TRST) {
			return
		}
		reply := func(code byte, opts []WOpt, pl []byte, label string) {
			if IsDatagram(tr) && m.Type == TCON {
				w.Queue(&WMsg{Type: TACK, Code: code, MID: m.MID, Token: m.Token, Opts: opts, Payload: pl}, label)
			} else {
				w.Queue(&WMsg{Type: TNON, Code: code, MID: w.NextPeerMID(), Token: m.Token, Opts: opts, Payload: pl}, label)
			}
		}
		// pings
		if (IsDatagram(tr) && m.Type == TCON && m.Code == 0) || (!IsDatagram(tr) && m.Code == 0xe2) {
			if t.Chance(2, 3) {
				if IsDatagram(tr) {
					w.Queue(&WMsg{Type: TRST, Code: 0, MID: m.MID}, "pong")
				} else {
					w.Queue(&WMsg{Code: 0xe3, Token: m.Token}, "pong")
				}
			}
			return
		}
		if m.Code == 0x45 { // one-way write of the application
			if IsDatagram(tr) && m.Type == TCON && t.Chance(2, 3) {
				w.Queue(&WMsg{Type: TACK, Code: 0, MID: m.MID}, "ack-of-oneway")
			}
			return
		}
		if m.Code < 1 || m.Code > 4 {
			return
		}
		if b2, ok := m.OptUint(OptBlock2); ok && b2>>4 >= 1 {
			// continuation request of a two-block download: the final block (sometimes never)
			if t.Chance(3, 4) {
				reply(0x45, []WOpt{UintOpt(OptBlock2, BlockOpt(b2>>4, false, 0))}, Body(7, 9), "final-block")
			}
			return
		}
		outcome := t.Weighted(5, 1, 2, 1, 1, 2)
		if outcome == 5 && !bw {
			outcome = 0
		}
		if ov, isObs := m.OptUint(OptObserve); isObs && ov == 0 {
			// a server answers every copy of one registration alike (an error after a success would end the observation)
			if o, seen := regOutcome[string(m.Token)]; seen {
				outcome = o
			} else {
				regOutcome[string(m.Token)] = outcome
			}
		}
		var opts []WOpt
		if ov, isObs := m.OptUint(OptObserve); isObs {
			opts = append(opts, UintOpt(OptObserve, 4))
			if ov == 0 {
				obsToken[ParseNonce(m)] = m.Token
			}
		}
		if b1, ok := m.OptUint(OptBlock1); ok {
			// block-wise upload: acknowledge blocks; the final one gets the answer
			_, more, _ := ParseBlock(b1)
			if more && outcome != 2 && outcome != 3 {
				if outcome == 4 {
					reply(0x5f, []WOpt{UintOpt(OptBlock1, BlockOpt(77, true, 0))}, nil, "continue-with-foreign-block-number")
				} else {
					reply(0x5f, []WOpt{UintOpt(OptBlock1, b1)}, nil, "continue")
				}
				return
			}
		}
		if len(m.Token) == 2 && m.Token[0] == 0x73 {
			if outcome == 0 || outcome == 1 {
				onewayAnswered[int(m.Token[1])] = true
			} else {
				onewayOpen = true // the peer never answers the final block: the kept request waits for its deadline
			}
		}
		switch outcome {
		case 0:
			reply(0x45, opts, []byte("ok"), "answer")
		case 1:
			reply(0x84, nil, nil, "error-answer")
		case 2:
			e.Probe("peer.silence")
		case 3:
			if IsDatagram(tr) && m.Type == TCON {
				w.Queue(&WMsg{Type: TRST, Code: 0, MID: m.MID}, "reset")
			}
		case 5:
			// the first block of a two-block body: the connection asks for the rest
			e.Probe("download.twoBlocks")
			reply(0x45, append(opts, UintOpt(OptBlock2, BlockOpt(0, true, 0))), Body(6, 16), "first-block-of-two")
		case 4:
			// a block-wise answer with a nonsensical block option (more blocks announced, block number far off)
			reply(0x45, append(opts, UintOpt(OptBlock2, BlockOpt(900, true, 2)), UintOpt(OptSize2, 70000)), Body(5, 64), "malformed-block-answer")
		}
	}

	startEx := func() {
		x := &exch{idx: len(exs), kind: t.Weighted(4, 1, 2, 1, 1, 1, 2, 1, 1)}
		if x.kind == 8 && !bw {
			x.kind = 5
		}
		to := []time.Duration{30 * time.Second, 3 * time.Second, 100 * time.Second, 0}[t.Choose(4)]
		x.call = e.NewCall(fmt.Sprintf("ex%d", x.idx), x.idx, nil, to)
		exs = append(exs, x)
		e.Logf("start ex%d kind=%d timeout=%v", x.idx, x.kind, to)
		e.Start(x.call, func(ctx context.Context) (*pool.Message, error) {
			switch x.kind {
			case 0:
				return w.API.Get(ctx, "/a", QueryOpt(x.idx))
			case 1:
				// the same caller-chosen token for every such request: duplicates while outstanding are rejected
				req := w.API.AcquireMessage(ctx)
				defer w.API.ReleaseMessage(req)
				if err := req.SetupGet("/dup", message.Token{0x0d, 0x0d}, QueryOpt(x.idx)); err != nil {
					return nil, err
				}
				return w.API.Do(req)
			case 2:
				ob, err := w.API.Observe(ctx, "/o", func(*pool.Message) {}, QueryOpt(x.idx))
				if err == nil {
					e.mu.Lock()
					liveObs = append(liveObs, liveOb{ob, x.idx})
					e.mu.Unlock()
				}
				return nil, err
			case 3:
				e.mu.Lock()
				var ob client.Observation
				if len(liveObs) > 0 {
					ob = liveObs[0].ob
					liveObs = liveObs[1:]
				}
				e.mu.Unlock()
				if ob == nil {
					return nil, nil
				}
				return nil, ob.Cancel(ctx)
			case 4:
				return nil, w.API.Ping(ctx)
			case 7:
				// the way the keep-alive monitor pings: AsyncPing, and once the pong has arrived the operation is
				// over - its cancel function is only needed for a ping that is given up
				e.Probe("ping.asyncWithoutCancel")
				pong := make(chan struct{}, 4)
				got := func() { pong <- struct{}{} }
				var cancel func()
				var err error
				if w.UCC != nil {
					cancel, err = w.UCC.AsyncPing(got)
				} else {
					cancel, err = w.TEP.CC.AsyncPing(got)
				}
				if err != nil {
					return nil, err
				}
				select {
				case <-pong:
					e.Probe("ping.asyncAnswered")
					return nil, nil
				case <-ctx.Done():
					cancel()
					return nil, ctx.Err()
				case <-w.API.Context().Done():
					cancel()
					return nil, w.API.Context().Err()
				}
			case 5:
				m := w.API.AcquireMessage(ctx)
				defer w.API.ReleaseMessage(m)
				m.SetCode(codes.Content)
				m.SetToken(message.Token{0x72, byte(x.idx)})
				m.SetBody(bytes.NewReader([]byte("one-way")))
				return nil, w.API.WriteMessage(m)
			case 8:
				// a one-way request with a body of several blocks: WriteMessage returns when the first block is out, the
				// rest is served from the kept request as the peer asks for it
				e.Probe("oneway.blockwiseRequest")
				m := w.API.AcquireMessage(ctx)
				defer w.API.ReleaseMessage(m)
				if err := m.SetupPost("/oneway-big", message.Token{0x73, byte(x.idx)}, message.AppOctets, bytes.NewReader(Body(x.idx, 50)), QueryOpt(x.idx)); err != nil {
					return nil, err
				}
				return nil, w.API.WriteMessage(m)
			default:
				req := w.API.AcquireMessage(ctx)
				defer w.API.ReleaseMessage(req)
				tok, _ := w.API.GetToken()
				if err := req.SetupPost("/big", tok, message.AppOctets, bytes.NewReader(Body(x.idx, 50)), QueryOpt(x.idx)); err != nil {
					return nil, err
				}
				return w.API.Do(req)
			}
		}, w.API.ReleaseMessage)
	}

	endedByPeer := 0
	for step := 0; step < 80 && e.Budget(); step++ {
		evs := w.Events(4)
		if len(exs) < nEx {
			evs = append(evs, Event{Label: "start", W: 4, Do: startEx})
		}
		running := 0
		for _, x := range exs {
			x := x
			if !x.call.Done() {
				running++
				if !x.call.Cancelled {
					evs = append(evs, Event{Label: "cancel", W: 1, Do: func() {
						e.Logf("cancel ex%d", x.idx)
						e.Fault("ctx.cancel")
						e.NonTrivial()
						e.CancelCall(x.call)
					}})
				}
			}
		}
		// the peer ends an observation (RFC 7641 3.2 / 4.2): a notification with an error code. From then on the
		// observation is not live any more, whether or not the application ever calls Cancel.
		e.mu.Lock()
		nLive := len(liveObs)
		e.mu.Unlock()
		if nLive > 0 && endedByPeer < 2 {
			evs = append(evs, Event{Label: "peer-ends-observation", W: 1, Do: func() {
				e.mu.Lock()
				k := t.Choose(len(liveObs))
				lo := liveObs[k]
				tok := obsToken[lo.idx]
				if tok != nil {
					liveObs = append(liveObs[:k:k], liveObs[k+1:]...)
				}
				e.mu.Unlock()
				if tok == nil {
					return
				}
				endedByPeer++
				e.Fault("observe.endedByPeer")
				e.Probe("observation.endedByPeer")
				e.Logf("the peer ends the observation of ex%d with a 4.04 notification", lo.idx)
				it := w.Queue(&WMsg{Type: TNON, Code: 0x84, MID: w.NextPeerMID(), Token: tok}, "final notification (4.04)")
				it.NoDrop = true
			}})
		}
		if running > 0 {
			evs = append(evs, Event{Label: "advance", W: 2, Do: func() {
				dt := []time.Duration{2*time.Second + time.Millisecond, 4 * time.Second, time.Second}[t.Choose(3)]
				e.Logf("advance %v then tick", dt)
				e.Sleep(dt)
				e.Fault("tick")
				w.Tick(time.Now())
			}})
		}
		w.prune()
		if len(exs) >= nEx && running == 0 && len(w.Outbox) == 0 {
			break
		}
		if len(evs) == 0 {
			break
		}
		w.Step(evs)
	}
	// ---- drain: deliver what is in flight, end every context, pass every deadline with ticks
	for i := 0; i < 3; i++ {
		w.prune()
		for _, it := range append([]*OutItem(nil), w.Outbox...) {
			w.Emit(it, false)
			e.Wait()
			w.Pump()
		}
	}
	for _, x := range exs {
		if !x.call.Done() {
			e.NonTrivial()
			e.CancelCall(x.call)
		}
	}
	e.Wait()
	w.Pump()
	for _, x := range exs {
		_, err := x.call.Result()
		if err != nil {
			e.NonTrivial()
			e.Probe("exchange.endedWithError")
		} else {
			e.Probe("exchange.endedNormally")
		}
	}
	// first audit, right away: every call has returned, so nothing of the initiator-side exchange state may be
	// left - only time-bounded data (cached replies, partially received bodies) may wait for its deadline
	if w.API.Context().Err() == nil {
		now := w.TableSizes()
		onewayUnfinished := func() bool {
			for _, x := range exs {
				if x.kind == 8 && !onewayAnswered[x.idx] {
					return true
				}
			}
			return false
		}
		hadObserve := false
		for _, x := range exs {
			if x.kind == 2 {
				hadObserve = true
			}
		}
		// (every exchange of this scenario is one the connection initiated: what has been collected of a block-wise
		// response belongs to the call that asked for it and goes when the call ends, whatever its deadline was)
		for _, k := range []string{"tokenHandlers", "midHandlers", "msgIDLocks", "bwSending", "bwReceiving", "limiterEndpoints", "limiterWaiters"} {
			if (k == "bwSending" || k == "bwReceiving") && (onewayOpen || onewayUnfinished()) {
				continue // a one-way upload the peer has not answered to the end: its request is kept until the deadline
			}
			if (k == "bwSending" || k == "bwReceiving") && hadObserve {
				// a block-wise notification makes the library fetch the rest with a request of its own (fresh
				// token, bounded by the transfer timeout): that internal exchange may still be under way
				continue
			}
			if n, ok := now[k]; ok && n != 0 {
				rule := map[string]string{"tokenHandlers": "C13.R1", "midHandlers": "C13.R2", "msgIDLocks": "C13.R4", "bwSending": "C13.R5", "bwReceiving": "C13.R5", "limiterEndpoints": "C13.R6", "limiterWaiters": "C13.R6"}[k]
				e.Violate(rule, "table-not-empty-after-return:"+k, "table %s still holds %d entries right after every call has returned", k, n)
			}
		}
	}
	for _, dt := range []time.Duration{time.Second, 6 * time.Second, 100 * time.Second, 150 * time.Second, time.Second} {
		e.Sleep(dt)
		w.Tick(time.Now())
		e.Wait()
		w.Pump()
		// late answers of the peer to things that are long gone
		w.prune()
		for _, it := range append([]*OutItem(nil), w.Outbox...) {
			w.Emit(it, false)
			e.Wait()
			w.Pump()
		}
	}
	e.Sleep(250 * time.Second)
	w.Tick(time.Now())
	e.Wait()
	e.mu.Lock()
	liveCount = len(liveObs)
	e.mu.Unlock()
	if w.API.Context().Err() != nil {
		e.Probe("connection.closedDuringRun")
		return
	}
	auditTables(e, "connection", w.TableSizes(), liveCount)
	// R6: a fresh request is admitted at once (limiter idle)
	c := e.NewCall("fresh", 999, nil, 20*time.Second)
	before := w.Recv
	e.Start(c, func(ctx context.Context) (*pool.Message, error) { return w.API.Get(ctx, "/fresh", QueryOpt(999)) }, w.API.ReleaseMessage)
	e.Wait()
	w.OnRecv = nil
	w.Pump()
	if w.Recv == before {
		e.Violate("C13.R6", "fresh-request-not-admitted", "after all exchanges ended a new request is not put on the wire immediately")
	}
	e.CancelCall(c)
	e.Wait()
}
