package sim

import (
	"bytes"
	"context"
	"fmt"
	"time"

	"github.com/plgd-dev/go-coap/v3/message"
	"github.com/plgd-dev/go-coap/v3/message/codes"
	"github.com/plgd-dev/go-coap/v3/message/pool"
	"github.com/plgd-dev/go-coap/v3/mux"
	"github.com/plgd-dev/go-coap/v3/net/blockwise"
	"github.com/plgd-dev/go-coap/v3/options"
	"github.com/plgd-dev/go-coap/v3/tcp"
)

// C04, scripted half: one real endpoint against a scripted peer that controls every single block
// (the "relay" of DESIGN 5): stale, replayed, out-of-order and foreign-token blocks, an ETag that
// changes in the middle of a download, a token re-used for a second upload.

func c04World(e *Env, tr string, szx blockwise.SZX, router *mux.Router) *CWorld {
	var w *CWorld
	if IsDatagram(tr) {
		cfg := SimUDPConfig(int32(e.Tape.Choose(65536)))
		cfg.BlockwiseEnable = true
		cfg.BlockwiseSZX = szx
		cfg.BlockwiseTransferTimeout = 5 * time.Second
		cfg.TransmissionNStart = 16
		cfg.TransmissionMaxRetransmit = 20
		if router != nil {
			options.WithMux(router).UDPClientApply(&cfg)
		}
		w = NewCWorld(e, CWorldCfg{Transport: tr, UDP: cfg})
	} else {
		o := []tcp.Option{options.WithBlockwise(true, szx, 5*time.Second), options.WithCloseSocket(),
			options.WithLimitClientParallelRequest(0), options.WithLimitClientEndpointParallelRequest(0)}
		if router != nil {
			o = append(o, options.WithMux(router))
		}
		w = NewCWorld(e, CWorldCfg{Transport: tr, TCPOpts: o})
	}
	if w == nil {
		return nil
	}
	e.Real("net/blockwise")
	e.Wait()
	if !IsDatagram(tr) {
		it := w.Queue(&WMsg{Code: 0xe1, Token: []byte{1}, Opts: []WOpt{{Num: OptTCPBlockWise}}}, "csm")
		w.Emit(it, false)
		e.Wait()
	}
	w.Pump()
	return w
}

// c04ScriptedDownload: the real client downloads; the scripted server decides block by block what to send.
func c04ScriptedDownload(e *Env) {
	t := e.Tape
	tr := []string{TrUDP, TrTCP, TrDTLS}[t.Weighted(3, 2, 1)]
	szx := blockwise.SZX(t.Choose(3)) // 16, 32, 64 byte blocks: many blocks, small bodies
	bs := 16 << uint(szx)
	// whatever the connection hands to the application outside the call: nothing should ever get here
	var strays []*RespInfo
	router := mux.NewRouter()
	router.DefaultHandle(mux.HandlerFunc(func(_ mux.ResponseWriter, r *mux.Message) {
		if r.Code() == codes.Empty {
			return
		}
		ri := Snapshot(r.Message)
		e.mu.Lock()
		strays = append(strays, ri)
		e.mu.Unlock()
		e.Notef("the connection's handler got %s", ri)
	}))
	w := c04World(e, tr, szx, router)
	if w == nil {
		return
	}
	nBlocks := 2 + t.Choose(4)
	size := nBlocks*bs - t.Choose(bs)
	v1, v2 := Body(301, size), Body(302, size+t.Choose(2*bs)-bs/2)
	etag1, etag2 := []byte{0xa1}, []byte{0xa2}
	e.Logf("cfg transport=%s block=%d size(v1)=%d size(v2)=%d", tr, bs, len(v1), len(v2))
	e.NonTrivial()
	// the request is a GET, or a POST with a small body of its own (the response is block-wise either way)
	withBody := t.Chance(1, 2)
	reqBody := []byte("query-body")[:1+t.Choose(10)]
	var call *Call
	callDone := func() bool { return call != nil && call.Done() }
	// one run in four is fault-free: the peer serves exactly what it is asked for, nothing is duplicated; only time
	// passes. Such an exchange can complete, so it has to - with the body the peer holds.
	clean := t.Chance(1, 4)
	// one run in four: one of the two representations is served without an ETag (a block without the tag its
	// predecessors carried - or the other way round - cannot be told to belong to them, so it must not be appended)
	if !clean && t.Chance(1, 4) {
		if t.Chance(1, 2) {
			etag1 = nil
		} else {
			etag2 = nil
		}
		e.Probe("download.oneRepresentationWithoutETag")
	}
	tagOpt := func(tag []byte) []WOpt {
		if tag == nil {
			return nil
		}
		return []WOpt{{Num: OptETag, Val: tag}}
	}
	cur, etag := v1, etag1
	switched := false
	peerUpload := false
	served := 0
	var reqTok []byte
	w.OnRecv = func(m *WMsg) {
		if IsDatagram(tr) && (m.Type == TACK || m.Type == TRST) {
			return
		}
		if m.Code != 1 && m.Code != 2 {
			return
		}
		if b2, ok := m.OptUint(OptBlock2); withBody && m.Code == 2 && (!ok || b2>>4 == 0) && !bytes.Equal(m.Payload, reqBody) {
			// a request for the first block of the response is a (re)start of the exchange: the server runs the
			// method on what it carries. Without the payload the application on the other side is handed a truncated body.
			e.Violate("C04.R1", "request-repeated-without-its-body:scripted-download", "a POST for block 0 of the response went out with %d payload bytes, the application supplied %d (after the call returned: %v)", len(m.Payload), len(reqBody), callDone())
		}
		num, sz := uint32(0), uint32(szx)
		if b2, ok := m.OptUint(OptBlock2); ok {
			num, _, sz = ParseBlock(b2)
			if sz > uint32(szx) {
				sz = uint32(szx)
			}
		}
		if reqTok == nil {
			reqTok = m.Token
		}
		blk := 16 << sz
		mode := t.Weighted(8, 2, 2, 1, 1)
		if clean {
			mode = 0
		}
		if !clean && !peerUpload && served > 0 && t.Chance(1, 6) {
			// tokens are scoped per direction: between two blocks of the download the peer starts an upload of its own
			// whose token happens to have the same bytes. It is a request for the connection's handler and has nothing
			// to do with the download.
			peerUpload = true
			e.Fault("block.peerUploadWithTheSameToken")
			e.Probe("peer.uploadWithTheTokenOfTheDownload")
			up := &WMsg{Type: TNON, Code: 2, MID: w.NextPeerMID(), Token: m.Token, Opts: []WOpt{{Num: OptURIPath, Val: []byte("peer-upload")}, UintOpt(OptBlock1, BlockOpt(0, true, sz))}, Payload: bytes.Repeat([]byte("U"), 16<<sz)}
			it := w.Queue(up, "first block of an upload of the peer with the token of the download")
			it.NoDrop = true
		}
		label := "block"
		switch mode {
		case 1: // replay an older block instead of the requested one
			if num > 0 {
				num = uint32(t.Choose(int(num)))
				label = "stale-block"
				e.Fault("block.staleReplay")
			}
		case 2: // the resource changes: from now on the other representation is served
			if !switched && served > 0 {
				switched = true
				cur, etag = v2, etag2
				label = "block-of-new-representation"
				e.Fault("block.etagChange")
			}
		case 3: // a block that belongs to somebody else
			tok := []byte{0x7c, 0x01}
			lo := int(num) * blk
			if lo < len(cur) {
				hi := lo + blk
				if hi > len(cur) {
					hi = len(cur)
				}
				w.Queue(&WMsg{Type: TNON, Code: 0x45, MID: w.NextPeerMID(), Token: tok, Opts: append(tagOpt(etag), UintOpt(OptBlock2, BlockOpt(num, hi < len(cur), sz))), Payload: cur[lo:hi]}, "foreign-token-block")
				e.Fault("block.foreignToken")
			}
		case 4: // skip ahead
			num++
			label = "out-of-order-block"
			e.Fault("block.outOfOrder")
		}
		lo := int(num) * blk
		if lo > len(cur) {
			lo = len(cur)
		}
		hi := lo + blk
		if hi > len(cur) {
			hi = len(cur)
		}
		served++
		// the two representations differ in more than their bytes: each block carries the Content-Format of the
		// representation it belongs to (42 octet-stream for v1, 50 json for v2)
		cfv := byte(42)
		if &cur[0] == &v2[0] {
			cfv = 50
		}
		opts := append(tagOpt(etag), WOpt{Num: OptContentFormat, Val: []byte{cfv}}, UintOpt(OptBlock2, BlockOpt(num, hi < len(cur), sz)), UintOpt(OptSize2, uint32(len(cur))))
		r := &WMsg{Type: TNON, Code: 0x45, MID: w.NextPeerMID(), Token: m.Token, Opts: opts, Payload: cur[lo:hi]}
		if IsDatagram(tr) && m.Type == TCON {
			r.Type, r.MID = TACK, m.MID
		}
		it := w.Queue(r, fmt.Sprintf("%s num=%d more=%v", label, num, hi < len(cur)))
		it.NoDrop = true
	}
	w.DupW = t.Choose(2)
	if clean {
		w.DupW = 0
	}
	// the caller's context has a deadline of 60 s, or none at all (then every time limit is the library's own)
	noDeadline := t.Chance(1, 3)
	if noDeadline {
		call = e.NewCall("download", 0, nil, 0)
		e.Probe("download.contextWithoutDeadline")
	} else {
		call = e.NewCall("download", 0, nil, 60*time.Second)
	}
	slow, lastSlow, nowSlow := 0, false, false
	e.Start(call, func(ctx context.Context) (*pool.Message, error) {
		if withBody {
			return w.API.(mux.Conn).Post(ctx, "/big", message.TextPlain, bytes.NewReader(reqBody))
		}
		return w.API.Get(ctx, "/big")
	}, w.API.ReleaseMessage)
	e.Wait()
	w.Pump()
	for step := 0; step < 80 && e.Budget() && !call.Done(); step++ {
		evs := w.Events(6)
		if len(evs) == 0 {
			e.Sleep(6 * time.Second)
			w.Tick(time.Now())
			e.Wait()
			w.Pump()
			if step > 20 {
				break
			}
			continue
		}
		if slow < 2 && !lastSlow { // (never two in a row: the time between two blocks stays below the 5 s transfer timeout)
			// a slow peer / a slow link: seconds pass, with housekeeping, while an answer is on its way
			evs = append(evs, Event{Label: "slow", W: 1, Do: func() {
				slow++
				nowSlow = true
				e.Fault("time.secondsPassMidTransfer")
				e.Logf("advance 4s then tick")
				e.Sleep(4 * time.Second)
				w.Tick(time.Now())
			}})
		}
		nowSlow = false
		w.Step(evs)
		lastSlow = nowSlow
	}
	if call.Done() && reqTok != nil {
		// late duplicates of blocks of the finished (or failed) exchange arrive: they must not set anything in motion
		for i := 0; i < 1+t.Choose(2); i++ {
			num := uint32(1 + t.Choose(nBlocks-1))
			lo := int(num) * bs
			if lo >= len(cur) {
				continue
			}
			hi := min(lo+bs, len(cur))
			e.Fault("block.staleAfterCompletion")
			it := w.Queue(&WMsg{Type: TNON, Code: 0x45, MID: w.NextPeerMID(), Token: reqTok, Opts: append(tagOpt(etag), UintOpt(OptBlock2, BlockOpt(num, hi < len(cur), uint32(szx)))), Payload: cur[lo:hi]}, fmt.Sprintf("stale block %d after the call returned", num))
			e.Logf("peer->ep %s", it.Label)
			w.Emit(it, false)
			e.Wait()
			w.Pump()
		}
		// whatever the connection asks for now is served as before
		for i := 0; i < 30; i++ {
			evs := w.Events(6)
			if len(evs) == 0 {
				break
			}
			w.Step(evs)
		}
	}
	for i := 0; i < 7; i++ {
		e.Sleep(10 * time.Second)
		w.Tick(time.Now())
		e.Wait()
		w.Pump()
	}
	if !call.Done() {
		if noDeadline && !clean {
			// "An exchange that cannot complete ends with an error or timeout - never by hanging": a caller that sets no
			// deadline has only the library to tell it that the transfer is dead (a block or the request for it was lost,
			// the transfer timeout has passed, the housekeeping has dropped the transfer: 70 s ago at least)
			e.Probe("download.noDeadlineFaultyRunAbandoned")
			e.Violate("C04.R5", "transfer-hangs:no-deadline:the-waiting-call-is-never-told", "the download (context without a deadline) has neither completed nor failed 70 s - many transfer timeouts - after the last event of a run with faults")
			return
		}
		if noDeadline {
			e.Violate("C04.R5", "transfer-hangs:scripted-download:fault-free", "fault-free run: the peer has answered every request it got with the block asked for, 70 s with housekeeping ticks have passed since, and the download (context without a deadline; %d slow phases of 4 s) has neither completed nor failed", slow)
		} else {
			e.Violate("C04.R5", "transfer-hangs:scripted-download", "the download has not returned 10 s after its 60 s deadline")
		}
		return
	}
	// after the exchange ended the blocks of the stale duplicates must not have set a new transfer in motion whose
	// result is then handed to the application a second time, through the connection's handler
	e.mu.Lock()
	st := append([]*RespInfo(nil), strays...)
	e.mu.Unlock()
	for _, x := range st {
		if bytes.Equal(x.Payload, v1) || bytes.Equal(x.Payload, v2) {
			e.Violate("C04.R2", "body-handed-over-twice:scripted-download", "the complete body (%d bytes) was handed to the connection's handler in addition to the call", len(x.Payload))
		}
	}
	resp, err := call.Result()
	if err != nil || resp == nil || resp.Code != 0x45 {
		e.Probe("transfer.failed")
		if clean {
			what := "a response that is not the peer's 2.05"
			if err != nil {
				what = trimErr(err)
			} else if resp != nil {
				what = resp.String()
			}
			e.Violate("C04.R5", "fault-free-transfer-failed:scripted-download", "fault-free run (every request answered with the block asked for, no duplicates, %d slow phases of 4 s, deadline: %v): the download ended with %s", slow, !noDeadline, what)
		}
		return
	}
	e.Probe("transfer.completed")
	for vi, v := range [][]byte{v1, v2} {
		if bytes.Equal(resp.Payload, v) {
			wantCF, wantTag := []byte{42, 50}[vi], [][]byte{etag1, etag2}[vi]
			if cf, ok := resp.Opt(OptContentFormat); !ok || len(cf) != 1 || cf[0] != wantCF {
				e.Violate("C04.R3", "options-of-another-representation:scripted-download", "the caller got representation v%d (%d bytes) with Content-Format %v; its blocks carried %d (etag switched=%v)", vi+1, len(v), cf, wantCF, switched)
			}
			if et, ok := resp.Opt(OptETag); (wantTag == nil && ok) || (wantTag != nil && (!ok || !bytes.Equal(et, wantTag))) {
				e.Violate("C04.R3", "options-of-another-representation:scripted-download", "the caller got representation v%d (%d bytes) with ETag %x; its blocks carried %x", vi+1, len(v), et, wantTag)
			}
		}
	}
	switch {
	case bytes.Equal(resp.Payload, v1), bytes.Equal(resp.Payload, v2):
	default:
		sig := "body-is-a-mixture"
		for _, v := range [][]byte{v1, v2} {
			if len(resp.Payload) < len(v) && bytes.Equal(resp.Payload, v[:len(resp.Payload)]) {
				sig = "partial-body-presented-as-complete"
			}
			if len(resp.Payload) > len(v) && bytes.Equal(resp.Payload[:len(v)], v) {
				sig = "body-extended"
			}
		}
		if switched && (etag1 == nil) != (etag2 == nil) {
			// the one route on which this is known to happen (known_findings.json): the representation changed and only
			// one of the two carries an ETag. Every other run keeps the general signatures.
			sig = "blocks-with-and-without-etag-combined"
			e.Probe("download.etagPresenceDiffers.mixed")
		}
		e.Violate("C04.R1", sig+":scripted-download", "the caller got a %d byte body that is neither representation the server ever held (v1 %d bytes tag %x, v2 %d bytes tag %x, block %d, etag switched=%v)", len(resp.Payload), len(v1), etag1, len(v2), etag2, bs, switched)
	}
}

// c04ScriptedUpload: the real endpoint receives; the scripted client sends Block1 blocks in an order of its choosing.
func c04ScriptedUpload(e *Env) {
	t := e.Tape
	tr := []string{TrUDP, TrTCP, TrDTLS}[t.Weighted(3, 2, 1)]
	szx := blockwise.SZX(t.Choose(3))
	bs := 16 << uint(szx)
	var got [][]byte
	var gotLine []string // method, path and content format the body came with
	router := mux.NewRouter()
	router.DefaultHandle(mux.HandlerFunc(func(rw mux.ResponseWriter, r *mux.Message) {
		var body []byte
		if r.Body() != nil {
			body, _ = r.ReadBody()
		}
		path, _ := r.Options().Path()
		cf, _ := r.Options().ContentFormat()
		e.mu.Lock()
		got = append(got, append([]byte(nil), body...))
		gotLine = append(gotLine, fmt.Sprintf("%v %s cf=%d", r.Code(), path, cf))
		e.mu.Unlock()
		e.Notef("handler got a %d byte body", len(body))
		_ = rw.SetResponse(codes.Changed, message.TextPlain, bytes.NewReader([]byte("ok")))
	}))
	w := c04World(e, tr, szx, router)
	if w == nil {
		return
	}
	mk := func(seed, blocks int) []byte { return Body(seed, blocks*bs-t.Choose(bs)) }
	bodies := [][]byte{mk(401, 2+t.Choose(4)), mk(402, 2+t.Choose(4))}
	sameToken := t.Chance(2, 3)
	noToken := t.Chance(1, 6)
	if noToken {
		sameToken = true
		e.Probe("upload.zeroLengthToken")
	}
	e.Logf("cfg transport=%s block=%d sizes=%d,%d sameToken=%v noToken=%v", tr, bs, len(bodies[0]), len(bodies[1]), sameToken, noToken)
	e.NonTrivial()
	mid := uint16(2000)
	block := func(bi, num int, tok []byte) *WMsg {
		b := bodies[bi]
		lo := num * bs
		if lo > len(b) {
			lo = len(b)
		}
		hi := lo + bs
		if hi > len(b) {
			hi = len(b)
		}
		mid++
		// the two uploads are two different requests: method, resource, content format
		code, path, cf := byte(2), "up", byte(42)
		if bi == 1 {
			code, path, cf = 3, "up2", 50
		}
		return &WMsg{Type: TCON, Code: code, MID: mid, Token: tok, Opts: []WOpt{{Num: OptURIPath, Val: []byte(path)}, {Num: OptContentFormat, Val: []byte{cf}},
			UintOpt(OptBlock1, BlockOpt(uint32(num), hi < len(b), uint32(szx))), UintOpt(OptSize1, uint32(len(b)))}, Payload: b[lo:hi]}
	}
	nb := func(bi int) int { return (len(bodies[bi]) + bs - 1) / bs }
	send := func(m *WMsg, label string) {
		it := w.Queue(m, label)
		e.Logf("client sends %s", label)
		w.Emit(it, false)
		e.Wait()
		w.Pump()
	}
	if tr == TrUDP && t.Chance(1, 5) {
		// a datagram longer than the connection's read buffer (MTU 1472): a single message with a 1500 byte body. It
		// cannot be received; what must not happen is that its head is taken for the whole.
		e.Fault("dgram.longerThanTheReadBuffer")
		e.Probe("upload.datagramLongerThanReadBuffer")
		mid++
		send(&WMsg{Type: TNON, Code: 2, MID: mid, Token: []byte{0x5f, 0x5f}, Opts: []WOpt{{Num: OptURIPath, Val: []byte("up")}, {Num: OptContentFormat, Val: []byte{42}}}, Payload: Body(499, 1500)}, "a single message with a 1500 byte body")
	}
	sentComplete := []bool{false, false}
	for bi := 0; bi < 2; bi++ {
		tok := []byte{0x51, byte(bi)}
		if sameToken {
			tok = []byte{0x51, 0x00}
		}
		if noToken {
			tok = nil // a zero-length token is a token like any other (RFC 7252 5.3.1)
		}
		n := nb(bi)
		inOrder := true
		have := 0 // blocks of this upload the receiver holds contiguously (as far as the sender can know)
		for num := 0; num < n; num++ {
			switch t.Weighted(10, 2, 2, 2, 1, 1) {
			case 1: // duplicate of the previous block under a fresh message ID
				if num > 0 {
					e.Fault("block.duplicateFreshMID")
					send(block(bi, num-1, tok), fmt.Sprintf("duplicate of block %d of body %d", num-1, bi))
				}
			case 2: // replay the final block of the previous upload. With the same token this is only unambiguous when
				// that block number has already been received in the new upload (a receiver cannot tell a stale
				// block from the genuine next one otherwise - tokens and numbers are all it has)
				if bi > 0 && (!sameToken || nb(bi-1)-1 < have) {
					e.Fault("block.staleFinalOfPreviousUpload")
					prevTok := []byte{0x51, byte(bi - 1)}
					if sameToken {
						prevTok = tok
					}
					send(block(bi-1, nb(bi-1)-1, prevTok), fmt.Sprintf("stale final block of body %d", bi-1))
				}
			case 3: // skip one block (never block 0: without it a receiver cannot know that a new transfer has begun)
				if num >= 1 && num+1 < n {
					e.Fault("block.skipped")
					inOrder = false
					num++
				}
			case 4: // a middle block with a foreign token (never block 0 or the last one: those would start / complete a transfer of their own)
				if num > 0 && num < n-1 {
					e.Fault("block.foreignToken")
					// the foreign token is unrelated, or differs from the transfer's token only in length (a zero byte
					// more or less); the block carries the other body's data, so merging it would show
					shorter := []byte{0x7b}
					if len(tok) > 0 {
						shorter = tok[:len(tok)-1]
					}
					ft := [][]byte{{0x7b, 0x7b}, append(append([]byte(nil), tok...), 0x00), append([]byte{0x00}, tok...), shorter}[t.Choose(4)]
					ob := 1 - bi
					fn := num
					if fn >= nb(ob)-1 {
						fn = nb(ob) - 2
					}
					if fn > 0 {
						if len(ft) != 2 || ft[0] != 0x7b {
							e.Probe("block.foreignTokenDiffersOnlyInLength")
						}
						send(block(ob, fn, ft), fmt.Sprintf("block %d of body %d under a foreign token %x", fn, ob, ft))
					}
				}
			case 5: // the transfer timeout passes
				e.Fault("time.transferTimeout")
				e.Logf("advance 6s then tick")
				e.Sleep(6 * time.Second)
				w.Tick(time.Now())
				e.Wait()
				inOrder = false
				have = 0
			}
			send(block(bi, num, tok), fmt.Sprintf("block %d/%d of body %d", num, n, bi))
			if num == 0 {
				have = 1
			} else if num == have {
				have++
			}
		}
		sentComplete[bi] = inOrder
	}
	e.Sleep(10 * time.Second)
	w.Tick(time.Now())
	e.Wait()
	e.mu.Lock()
	gotCopy := append([][]byte(nil), got...)
	lines := append([]string(nil), gotLine...)
	e.mu.Unlock()
	wantLine := []string{"POST /up cf=42", "PUT /up2 cf=50"}
	counts := []int{0, 0}
	for gi, g := range gotCopy {
		matched := false
		for bi, b := range bodies {
			if bytes.Equal(g, b) {
				counts[bi]++
				matched = true
				if lines[gi] != wantLine[bi] {
					e.Violate("C04.R3", "body-delivered-as-another-request:scripted-upload", "body %d was uploaded as %q and reached the handler as %q: the request line and options of the transfer that was abandoned under this token", bi, wantLine[bi], lines[gi])
				}
			}
		}
		if !matched {
			sig := "body-is-a-mixture"
			for _, b := range bodies {
				if len(g) < len(b) && bytes.Equal(g, b[:len(g)]) {
					sig = "partial-body-presented-as-complete"
				}
				if len(g) > 0 && len(g) < len(b) && bytes.Equal(g, b[len(b)-len(g):]) {
					sig = "tail-presented-as-complete"
				}
			}
			e.Violate("C04.R1", sig+":scripted-upload", "the handler got a %d byte body that no client ever sent (bodies %d and %d bytes, block %d)", len(g), len(bodies[0]), len(bodies[1]), bs)
		}
	}
	for bi, c := range counts {
		if c > 1 {
			e.Violate("C04.R2", "body-handed-over-twice:scripted-upload", "body %d reached the handler %d times", bi, c)
		}
		if c == 1 {
			e.Probe("transfer.completed")
		} else if sentComplete[bi] {
			e.Probe("transfer.inOrderButNotDelivered")
		}
	}
}

// c04HugeUpload: an upload of more than 4096 blocks (block numbers that need a 3-byte Block1 option), sent block
// by block by a scripted client to a real endpoint. No faults: the point is the size of the numbers.
func c04HugeUpload(e *Env) {
	t := e.Tape
	tr := []string{TrUDP, TrTCP}[t.Choose(2)]
	const bs = 16
	var got [][]byte
	router := mux.NewRouter()
	router.DefaultHandle(mux.HandlerFunc(func(rw mux.ResponseWriter, r *mux.Message) {
		var body []byte
		if r.Body() != nil {
			body, _ = r.ReadBody()
		}
		e.mu.Lock()
		got = append(got, append([]byte(nil), body...))
		e.mu.Unlock()
		e.Notef("handler got a %d byte body", len(body))
		_ = rw.SetResponse(codes.Changed, message.TextPlain, bytes.NewReader([]byte("ok")))
	}))
	w := c04World(e, tr, blockwise.SZX16, router)
	if w == nil {
		return
	}
	nBlocks := 4097 + t.Choose(4)
	body := Body(900, nBlocks*bs-t.Choose(bs))
	e.Logf("cfg transport=%s blocks=%d bytes=%d", tr, nBlocks, len(body))
	e.NonTrivial()
	e.Probe("upload.blockNumberNeedsThreeBytes")
	tok := []byte{0x5a, 0x01}
	for num := 0; num < nBlocks; num++ {
		lo, hi := num*bs, min((num+1)*bs, len(body))
		m := &WMsg{Type: TCON, Code: 2, MID: uint16(3000 + num), Token: tok, Opts: []WOpt{{Num: OptURIPath, Val: []byte("up")}, {Num: OptContentFormat, Val: []byte{42}},
			UintOpt(OptBlock1, BlockOpt(uint32(num), hi < len(body), 0))}, Payload: body[lo:hi]}
		it := w.Queue(m, "block")
		w.Emit(it, false)
		if num%64 == 63 || num == nBlocks-1 {
			e.Wait()
			w.Pump()
		}
	}
	e.Wait()
	w.Pump()
	e.mu.Lock()
	got = append([][]byte(nil), got...)
	e.mu.Unlock()
	switch {
	case len(got) == 0:
		e.Probe("transfer.failed")
	case len(got) > 1:
		e.Violate("C04.R2", "body-handed-over-twice:huge-upload", "the handler ran %d times for one upload of %d blocks (body sizes %d, %d ...)", len(got), nBlocks, len(got[0]), len(got[1]))
	case !bytes.Equal(got[0], body):
		sig := "body-is-a-mixture"
		if len(got[0]) < len(body) {
			sig = "partial-body-presented-as-complete"
		}
		e.Violate("C04.R1", sig+":huge-upload", "the handler got %d bytes, the client sent %d bytes in %d blocks", len(got[0]), len(body), nBlocks)
	default:
		e.Probe("transfer.completed")
	}
}

// c04ScriptedFetch: the real endpoint is the server of a block-wise *response*; a scripted client fetches it block by
// block and misbehaves in between - it starts the same request over (same token, new message ID, no Block2) while
// the transfer is still cached, repeats a block request, asks for a block again after a pause longer than the
// transfer timeout. Whatever it puts together from blocks that belong to one generation must be the body the
// application supplied; restarts are answered somehow (an error is fine), never with a body that is not the body.
func c04ScriptedFetch(e *Env) {
	t := e.Tape
	tr := []string{TrUDP, TrTCP, TrDTLS}[t.Weighted(3, 2, 1)]
	szx := blockwise.SZX(t.Choose(2))
	bs := 16 << uint(szx)
	body := Body(500, (3+t.Choose(4))*bs-t.Choose(bs))
	runs := 0
	router := mux.NewRouter()
	router.DefaultHandle(mux.HandlerFunc(func(rw mux.ResponseWriter, r *mux.Message) {
		if r.Code() == codes.Empty {
			return
		}
		e.mu.Lock()
		runs++
		e.mu.Unlock()
		e.Notef("handler runs (#%d)", runs)
		_ = rw.SetResponse(codes.Content, message.AppOctets, bytes.NewReader(body), message.Option{ID: message.ETag, Value: []byte{0xe7}})
	}))
	w := c04World(e, tr, szx, router)
	if w == nil {
		return
	}
	e.Logf("cfg transport=%s block=%d body=%d", tr, bs, len(body))
	e.NonTrivial()
	tok := []byte{0x5d, 0x01}
	mid := uint16(2500)
	type blk struct {
		num  uint32
		more bool
		data []byte
		code byte
	}
	var got []blk
	w.OnRecv = func(m *WMsg) {
		if IsDatagram(tr) && (m.Type == TRST || (m.Type == TACK && m.Code == 0)) {
			return
		}
		if !bytes.Equal(m.Token, tok) {
			return
		}
		b := blk{code: m.Code, data: m.Payload}
		if v, ok := m.OptUint(OptBlock2); ok {
			b.num, b.more, _ = ParseBlock(v)
		}
		got = append(got, b)
	}
	request := func(num int, withBlock bool, label string) {
		mid++
		m := &WMsg{Type: TCON, Code: 1, MID: mid, Token: tok, Opts: []WOpt{{Num: OptURIPath, Val: []byte("big")}}}
		if withBlock {
			m.Opts = append(m.Opts, UintOpt(OptBlock2, BlockOpt(uint32(num), false, uint32(szx))))
		}
		it := w.Queue(m, label)
		e.Logf("client sends %s", label)
		w.Emit(it, false)
		e.Wait()
		w.Pump()
	}
	nb := (len(body) + bs - 1) / bs
	request(0, false, "request")
	var assembled []byte
	clean := true // no restart / pause since block 0 of the current generation
	next := 1
	if len(got) > 0 && got[len(got)-1].code == 0x45 && got[len(got)-1].num == 0 {
		assembled = append(assembled, got[len(got)-1].data...)
	}
	for step := 0; step < 3*nb && next < nb && e.Budget(); step++ {
		switch t.Weighted(8, 2, 2, 1) {
		case 1: // the client starts over while the server still holds the transfer
			e.Fault("fetch.restartWhileCached")
			before := len(got)
			request(0, false, "the same request again (new message ID, no Block2)")
			assembled, next, clean = nil, 1, true
			if len(got) > before && got[len(got)-1].code == 0x45 && got[len(got)-1].num == 0 {
				assembled = append(assembled, got[len(got)-1].data...)
			} else {
				clean = false // refused (4.08 or the like): nothing to build on
				next = nb
			}
			continue
		case 2: // a block request is repeated
			if next > 1 {
				e.Fault("fetch.blockRequestedTwice")
				request(next-1, true, fmt.Sprintf("request for block %d again", next-1))
			}
			continue
		case 3: // longer than the transfer timeout
			e.Fault("time.transferTimeout")
			e.Sleep(6 * time.Second)
			w.Tick(time.Now())
			e.Wait()
			clean = false // the server may have to run the handler again for the rest: still the same body
		}
		before := len(got)
		request(next, true, fmt.Sprintf("request for block %d", next))
		if len(got) == before {
			break
		}
		b := got[len(got)-1]
		if b.code != 0x45 || int(b.num) != next {
			break
		}
		assembled = append(assembled, b.data...)
		next++
		if !b.more {
			break
		}
	}
	_ = clean
	// every 2.05 block must be the right slice of the body, whatever generation it belongs to
	for _, b := range got {
		if b.code != 0x45 {
			continue
		}
		lo := int(b.num) * bs
		hi := min(lo+bs, len(body))
		if lo > len(body) || !bytes.Equal(b.data, body[lo:hi]) || b.more != (hi < len(body)) {
			e.Violate("C04.R1", "block-is-not-a-slice-of-the-body:scripted-fetch", "block %d (more=%v, %d bytes) is not bytes %d..%d of the %d byte body", b.num, b.more, len(b.data), lo, hi, len(body))
			break
		}
	}
	if next >= nb && len(assembled) > 0 && len(assembled) >= len(body) && !bytes.Equal(assembled, body) {
		e.Violate("C04.R1", "body-is-a-mixture:scripted-fetch", "the client put %d bytes together from consecutive blocks, the application supplied %d", len(assembled), len(body))
	}
	if bytes.Equal(assembled, body) {
		e.Probe("transfer.completed")
	}
}

// c04ScriptedClientUpload: the library's client uploads a body of several blocks with a context that has no deadline.
// The scripted peer acknowledges block 0 (2.31) and then goes away: the request for... the next block is written - once;
// later blocks of an upload are confirmable messages that are never re-sent and never given up. Nothing can complete
// this exchange; it has to end with an error.
func c04ScriptedClientUpload(e *Env) {
	t := e.Tape
	tr := []string{TrUDP, TrDTLS}[t.Choose(2)]
	szx := blockwise.SZX(t.Choose(2))
	bs := 16 << uint(szx)
	router := mux.NewRouter()
	router.DefaultHandle(mux.HandlerFunc(func(mux.ResponseWriter, *mux.Message) {}))
	w := c04World(e, tr, szx, router)
	if w == nil {
		return
	}
	body := Body(401, 2*bs+5)
	lostAt := 1 + t.Choose(2) // the block whose answer never comes
	var blocks []*WMsg
	w.OnRecv = func(m *WMsg) {
		if m.Code != 2 {
			return
		}
		b1, ok := m.OptUint(OptBlock1)
		if !ok {
			return
		}
		blocks = append(blocks, m)
		if num := int(b1 >> 4); num < lostAt {
			w.Queue(&WMsg{Type: TACK, Code: 0x5f, MID: m.MID, Token: m.Token, Opts: []WOpt{UintOpt(OptBlock1, b1)}}, fmt.Sprintf("continue-%d", num))
		}
	}
	e.Logf("cfg transport=%s block=%d body=%d the peer goes away before it answers block %d", tr, bs, len(body), lostAt)
	e.NonTrivial()
	e.Probe("clientUpload.peerGoesAway")
	call := e.NewCall("upload", 0, nil, 0)
	e.Start(call, func(ctx context.Context) (*pool.Message, error) {
		return w.API.(mux.Conn).Post(ctx, "/up", message.AppOctets, bytes.NewReader(body))
	}, w.API.ReleaseMessage)
	for i := 0; i < 6; i++ {
		e.Wait()
		w.Pump()
		for _, it := range append([]*OutItem(nil), w.Outbox...) {
			w.Emit(it, false)
			e.Wait()
			w.Pump()
		}
		w.prune()
	}
	for i := 0; i < 9 && !call.Done(); i++ {
		e.Sleep(10 * time.Second)
		w.Tick(time.Now())
		e.Wait()
		w.Pump()
	}
	if !call.Done() {
		copies := 0
		for _, m := range blocks {
			if b1, _ := m.OptUint(OptBlock1); int(b1>>4) == lostAt {
				copies++
			}
		}
		e.Violate("C04.R5", "transfer-hangs:no-deadline:the-waiting-call-is-never-told", "the upload (context without a deadline) has neither completed nor failed 90 s after the peer went away; block %d was written %d time(s)", lostAt, copies)
		e.CancelCall(call)
		e.Wait()
		return
	}
	if _, err := call.Result(); err == nil {
		e.Violate("C04.R2", "success-without-delivery:scripted-client-upload", "the peer never got past block %d and the upload reports success", lostAt)
	}
}

// c04ScriptedSlowFetchFromServer: the library is the server of a resource whose representation is another one at every
// execution of the handler and that carries no ETag (a reading, a counter); the scripted client fetches it block by
// block, never slower than the transfer timeout from one block to the next - but the whole download takes longer than
// the timeout. A transfer that is being served is alive: every block has to come from the execution that answered
// block 0.
func c04ScriptedSlowFetchFromServer(e *Env) {
	t := e.Tape
	tr := []string{TrUDP, TrTCP, TrDTLS}[t.Weighted(3, 2, 1)]
	szx := blockwise.SZX(t.Choose(2))
	bs := 16 << uint(szx)
	nBlocks := 4 + t.Choose(4)
	gap := []time.Duration{2 * time.Second, 4 * time.Second, 4999 * time.Millisecond, time.Second}[t.Choose(4)]
	size := nBlocks*bs - t.Choose(bs)
	gens := 0
	router := mux.NewRouter()
	router.DefaultHandle(mux.HandlerFunc(func(rw mux.ResponseWriter, r *mux.Message) {
		if r.Code() != codes.GET {
			return
		}
		e.mu.Lock()
		gens++
		g := gens
		e.mu.Unlock()
		e.Notef("handler: execution %d", g)
		_ = rw.SetResponse(codes.Content, message.AppOctets, bytes.NewReader(Body(500+g, size)))
	}))
	w := c04World(e, tr, szx, router)
	if w == nil {
		return
	}
	e.NonTrivial()
	e.Logf("cfg transport=%s block=%d blocks=%d gap=%v (transfer timeout 5s) whole download=%v", tr, bs, nBlocks, gap, time.Duration(nBlocks-1)*gap)
	if time.Duration(nBlocks-1)*gap > 5*time.Second {
		e.Probe("slowFetch.longerThanTheTransferTimeout")
	}
	token := []byte{0x5a, 0x01}
	var answers []*WMsg
	w.OnRecv = func(m *WMsg) {
		if bytes.Equal(m.Token, token) && m.Code != 0 {
			answers = append(answers, m)
		}
	}
	want := Body(501, size)
	var got []byte
	for num := 0; num < nBlocks; num++ {
		if num > 0 {
			// time passes, the housekeeping looks in
			for left := gap; left > 0; left -= time.Second {
				step := time.Second
				if left < step {
					step = left
				}
				e.Sleep(step)
				w.Tick(time.Now())
				e.Wait()
				w.Pump()
			}
		}
		answers = nil
		req := &WMsg{Type: TCON, Code: 1, MID: w.NextPeerMID(), Token: token, Opts: []WOpt{{Num: OptURIPath, Val: []byte("r")}, UintOpt(OptBlock2, BlockOpt(uint32(num), false, uint32(szx)))}}
		it := w.Queue(req, fmt.Sprintf("get block %d", num))
		it.NoDup, it.NoDrop = true, true
		w.Emit(it, false)
		e.Wait()
		w.Pump()
		if len(answers) != 1 || answers[0].Code != 0x45 {
			e.Violate("C04.R5", "block-not-served:scripted-slow-fetch", "block %d asked for %v after the previous one: %d answers %v", num, gap, len(answers), answers)
			return
		}
		pl := answers[0].Payload
		lo := num * bs
		hi := lo + len(pl)
		if hi > len(want) || !bytes.Equal(pl, want[lo:hi]) {
			e.mu.Lock()
			g := gens
			e.mu.Unlock()
			e.Violate("C04.R1", "body-is-a-mixture-of-two-executions:scripted-slow-fetch", "block %d, asked for %v after block %d (transfer timeout 5s), is not from the execution that served block 0; the handler has run %d times", num, gap, num-1, g)
			return
		}
		got = append(got, pl...)
	}
	if !bytes.Equal(got, want) {
		e.Violate("C04.R1", "body-differs:scripted-slow-fetch", "the %d blocks add up to %d bytes, the handler supplied %d", nBlocks, len(got), len(want))
	}
}

// c04ScriptedUploadAtDeadline: an upload that runs into the deadline of its call. The request that Do keeps for the
// block-wise layer expires with that deadline - by the clock, which is an instant earlier than the moment the call
// itself notices that its context has ended. A 2.31 of the peer that arrives in between finds no request to continue.
// Whatever becomes of it, it is not the result of the upload: the exchange did not complete, the call has to end with
// an error. (The call is held just before it starts to wait, so that the 2.31 can arrive in that instant; when it goes
// on, its context is done and - if the library handed the 2.31 on - a result is waiting as well: which of the two the
// runtime's select takes is not the tape's to decide, the run is marked racy.)
func c04ScriptedUploadAtDeadline(e *Env) {
	t := e.Tape
	tr := []string{TrUDP, TrDTLS}[t.Choose(2)]
	szx := blockwise.SZX(t.Choose(2))
	bs := 16 << uint(szx)
	router := mux.NewRouter()
	router.DefaultHandle(mux.HandlerFunc(func(mux.ResponseWriter, *mux.Message) {}))
	w := c04World(e, tr, szx, router)
	if w == nil {
		return
	}
	body := Body(411, 2*bs+3)
	var first *WMsg
	w.OnRecv = func(m *WMsg) {
		if m.Code == 2 && first == nil {
			first = m
			// the peer acknowledges block 0 at once and answers later
			it := w.Queue(&WMsg{Type: TACK, Code: 0, MID: m.MID}, "empty-ack")
			it.NoDup, it.NoDrop = true, true
		}
	}
	e.EnablePark("udp.doInternal.beforeWait", 0)
	call := e.NewCall("upload", 0, nil, 10*time.Second)
	e.Start(call, func(ctx context.Context) (*pool.Message, error) {
		return w.API.(mux.Conn).Post(ctx, "/up", message.AppOctets, bytes.NewReader(body))
	}, w.API.ReleaseMessage)
	for i := 0; i < 3; i++ {
		e.Wait()
		w.Pump()
		for _, it := range append([]*OutItem(nil), w.Outbox...) {
			w.Emit(it, false)
			e.Wait()
			w.Pump()
		}
		w.prune()
	}
	held := e.Parked()
	if first == nil || len(held) != 1 {
		e.Probe("uploadAtDeadline.notArmed")
		for _, pg := range held {
			e.Resume(pg)
		}
		e.Wait()
		return
	}
	e.NonTrivial()
	// the deadline passes while the call is held; the peer's 2.31 for block 0 arrives a moment later
	e.Sleep(call.Deadline - e.Now() + time.Millisecond)
	b1, _ := first.OptUint(OptBlock1)
	it := w.Queue(&WMsg{Type: TNON, Code: 0x5f, MID: w.NextPeerMID(), Token: first.Token, Opts: []WOpt{UintOpt(OptBlock1, b1)}}, "continue (late)")
	it.NoDup, it.NoDrop = true, true
	w.Emit(it, false)
	e.Wait()
	w.Pump()
	e.Probe("uploadAtDeadline.continueArrivesInTheInstantOfTheDeadline")
	e.MarkRacy()
	e.Resume(held[0])
	for i := 0; i < 3; i++ {
		e.Wait()
		w.Pump()
	}
	if !call.Done() {
		e.Violate("C04.R5", "transfer-hangs:scripted-upload-at-deadline", "the upload has not returned after its deadline")
		return
	}
	if ri, err := call.Result(); err == nil {
		code := byte(0)
		if ri != nil {
			code = ri.Code
		}
		e.Violate("C04.R5", "ended-with-continue-as-its-result:scripted-upload-at-deadline", "the upload ran into its deadline after block 0 of %d bytes; the call returned code %d.%02d and no error", len(body), code>>5, code&31)
	}
}
