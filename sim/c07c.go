package sim

import (
	"time"

	"github.com/plgd-dev/go-coap/v3/options"
	"github.com/plgd-dev/go-coap/v3/tcp"
)

// C07, the start of a stream connection: tcp.Client with a CSM exchange timeout waits for the peer's CSM before it
// returns. A peer may send several CSM messages (RFC 8323 5.3: at any time), and they may arrive in one read. Every
// signalling message is reported to the connection's signal callback on a goroutine of its own; the callback of the
// CSM exchange must stand being run by several of them at once.
func c07CSMExchangeRun(e *Env) {
	t := e.Tape
	nCSM := 2 + t.Choose(4)
	cacheSize := []uint16{2048, 1, 7}[t.Choose(3)]
	sa, _ := NewStream(e, TCPAddr("10.0.0.1", 40000), TCPAddr("10.0.0.2", 5683))
	var raw []byte
	for i := 0; i < nCSM; i++ {
		raw = append(raw, EncodeTCP(&WMsg{Code: 0xe1, Token: []byte{byte(i + 1)}, Opts: []WOpt{UintOpt(OptTCPMaxMsgSize, uint32(2000+i))}})...)
	}
	// the first of the callbacks that finds the exchange still open is held on its way to ending it
	e.EnablePark("tcp.csmExchange.beforeClose", 0)
	type res struct {
		ep  *TCPEndpoint
		err error
	}
	done := make(chan res, 1)
	go func() {
		ep, err := NewTCPEndpoint(e, sa, TCPEndpointCfg{Opts: []tcp.Option{options.WithCSMExchangeTimeout(5 * time.Second), options.WithCloseSocket(),
			options.WithConnectionCacheSize(cacheSize)}})
		done <- res{ep, err}
	}()
	e.Wait()
	sa.InjectIn(raw)
	sa.ReleaseIn(1 << 30)
	e.Logf("cfg the peer sends %d CSM messages in one segment, cache=%d", nCSM, cacheSize)
	e.Wait()
	for _, pg := range e.Parked() {
		e.NonTrivial()
		e.Probe("csm.callbacksOverlap")
		e.Resume(pg)
	}
	e.Wait()
	select {
	case r := <-done:
		if r.err != nil {
			e.Violate("C07.R1", "csm-exchange-failed", "the peer sent %d CSM messages at once; tcp.Client returned %v", nCSM, r.err)
		}
	default:
		e.Violate("C07.R1", "csm-exchange-not-completed", "the peer sent %d CSM messages; tcp.Client with a CSM exchange timeout has not returned", nCSM)
		e.Sleep(6 * time.Second)
		e.Wait()
	}
}
