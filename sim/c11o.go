package sim

import (
	"bytes"
	"context"
	"fmt"
	"time"

	"github.com/plgd-dev/go-coap/v3/message"
	"github.com/plgd-dev/go-coap/v3/message/codes"
	"github.com/plgd-dev/go-coap/v3/message/pool"
	"github.com/plgd-dev/go-coap/v3/mux"
	"github.com/plgd-dev/go-coap/v3/options"
	"github.com/plgd-dev/go-coap/v3/tcp"
)

// C11, second scenario: arrival order with handlers that never block, on a connection whose reader loop has been
// replaced before (an application goroutine issued a request, a ping or an observe registration while a handler was
// running - handlers themselves return at once). Afterwards the reader is parked between taking a message from the
// queue and calling the handler, and further messages arrive: nothing that arrived later may reach a handler first.

func c11OrderRun(e *Env) {
	t := e.Tape
	tr := PickTransport(t)
	qsize := []int{16, 2, 4}[t.Choose(3)]
	replacements := t.Choose(3)
	burst := 2 + t.Choose(3)
	lateBurst := t.Chance(1, 2)
	overtake := t.Chance(1, 4)
	overtaken := false
	e.NoAutoRacy = true // the scenario keeps the queue empty whenever a replaced loop comes back (one ready select case)

	type inMsg struct {
		n       int
		entered int
		seq     int
	}
	var all []*inMsg
	seq := 0
	router := mux.NewRouter()
	router.DefaultHandle(mux.HandlerFunc(func(rw mux.ResponseWriter, r *mux.Message) {
		ri := Snapshot(r.Message)
		n := ParseNonce(&WMsg{Opts: ri.Opts})
		e.Notef("handler n=%d", n)
		e.mu.Lock()
		if n >= 1 && n <= len(all) {
			seq++
			all[n-1].entered++
			all[n-1].seq = seq
		}
		e.mu.Unlock()
		_ = rw.SetResponse(codes.Content, message.TextPlain, bytes.NewReader([]byte(fmt.Sprintf("done-%d", n))))
	}))
	var w *CWorld
	if IsDatagram(tr) {
		cfg := SimUDPConfig(int32(t.Choose(65536)))
		cfg.TransmissionNStart = 16
		cfg.TransmissionAcknowledgeTimeout = 2 * time.Second
		cfg.ReceivedMessageQueueSize = qsize
		cfg.BlockwiseEnable = false
		options.WithMux(router).UDPClientApply(&cfg)
		w = NewCWorld(e, CWorldCfg{Transport: tr, UDP: cfg})
	} else {
		w = NewCWorld(e, CWorldCfg{Transport: tr, TCPOpts: []tcp.Option{
			options.WithMux(router), options.WithReceivedMessageQueueSize(qsize), options.WithCloseSocket(),
			options.WithLimitClientParallelRequest(0), options.WithLimitClientEndpointParallelRequest(0),
		}})
	}
	if w == nil {
		return
	}
	e.Real("mux.Router (default handler)", "net/client.ReceivedMessageReader")
	e.Wait()
	w.Pump()
	e.Logf("cfg transport=%s queue=%d replacements=%d burst=%d", tr, qsize, replacements, burst)

	// the peer answers whatever the application asks from outside the handlers
	w.OnRecv = func(m *WMsg) {
		if IsDatagram(tr) && (m.Type == TACK || m.Type == TRST) {
			return
		}
		switch {
		case IsDatagram(tr) && m.Type == TCON && m.Code == 0:
			it := w.Queue(&WMsg{Type: TRST, Code: 0, MID: m.MID}, "pong")
			it.NoDup, it.NoDrop = true, true
		case !IsDatagram(tr) && m.Code == 0xe2:
			it := w.Queue(&WMsg{Code: 0xe3, Token: m.Token}, "pong")
			it.NoDup, it.NoDrop = true, true
		case m.Code >= 1 && m.Code <= 4:
			var opts []WOpt
			if _, isObs := m.OptUint(OptObserve); isObs {
				opts = append(opts, UintOpt(OptObserve, 5))
			}
			var it *OutItem
			if IsDatagram(tr) && m.Type == TCON {
				it = w.Queue(&WMsg{Type: TACK, Code: 0x45, MID: m.MID, Token: m.Token, Opts: opts, Payload: []byte("outside")}, "answer")
			} else {
				it = w.Queue(&WMsg{Type: TNON, Code: 0x45, MID: w.NextPeerMID(), Token: m.Token, Opts: opts, Payload: []byte("outside")}, "answer")
			}
			it.NoDup, it.NoDrop = true, true
		}
	}
	deliver := func() *inMsg {
		in := &inMsg{n: len(all) + 1}
		e.mu.Lock()
		all = append(all, in)
		e.mu.Unlock()
		m := &WMsg{Type: TCON, Code: 1, MID: w.NextPeerMID(), Token: []byte{0xa0, byte(in.n)}, Opts: []WOpt{{Num: OptURIPath, Val: []byte("in")}, {Num: OptURIQuery, Val: []byte(fmt.Sprintf("n=%d", in.n))}}}
		if IsDatagram(tr) && t.Chance(1, 2) {
			m.Type = TNON
		}
		it := w.Queue(m, fmt.Sprintf("in-%d", in.n))
		e.Logf("peer->ep in-%d", in.n)
		w.Emit(it, false)
		e.Wait()
		w.Pump()
		return in
	}
	entered := func(in *inMsg) int { e.mu.Lock(); defer e.mu.Unlock(); return in.entered }
	parkNext := func() { e.EnablePark("reader.afterFlagClear", e.SiteHits("reader.afterFlagClear")) }
	resumeAll := func() {
		for _, pg := range e.Parked() {
			e.Resume(pg)
		}
		e.Wait()
		w.Pump()
	}
	flushAnswers := func() {
		for i := 0; i < 4; i++ {
			w.prune()
			if len(w.Outbox) == 0 {
				return
			}
			for _, it := range append([]*OutItem(nil), w.Outbox...) {
				e.Logf("peer->ep %s", it.Label)
				w.Emit(it, false)
				e.Wait()
				w.Pump()
			}
		}
	}

	// ---- phase A: the reader loop is replaced while a (fast) handler is about to run
	var calls []*Call
	for r := 0; r < replacements; r++ {
		parkNext()
		first := deliver()
		if len(e.Parked()) == 0 {
			e.Probe("order.parkMissed")
			return
		}
		kind := t.Choose(3)
		c := e.NewCall(fmt.Sprintf("outside-%d", r), 500+r, nil, 1000*time.Second)
		calls = append(calls, c)
		e.Logf("application goroutine issues %s while a handler is running", []string{"get", "ping", "observe"}[kind])
		e.Start(c, func(ctx context.Context) (*pool.Message, error) {
			switch kind {
			case 0:
				return w.API.Get(ctx, "/outside", QueryOpt(500+r))
			case 1:
				return nil, w.API.Ping(ctx)
			default:
				_, err := w.API.Observe(ctx, "/outside-obs", func(*pool.Message) {}, QueryOpt(500+r))
				return nil, err
			}
		}, w.API.ReleaseMessage)
		e.Wait()
		w.Pump()
		e.Probe("order.loopReplacedBefore")
		if overtake && r == replacements-1 && len(e.Parked()) == 1 {
			// the replaced loop has taken `first` from the queue and has not called its handler yet; the new loop is free
			// to dispatch whatever arrives now - nothing tells TryToReplaceLoop that its caller is no handler
			second := deliver()
			e.Probe("order.messageArrivesWhileReplacedLoopHoldsAnEarlierOne")
			if entered(second) > 0 && entered(first) == 0 {
				overtaken = true
				e.Violate("C11.R3", "dispatch-out-of-arrival-order:loop-replaced-by-application-request", "message n=%d arrived after n=%d and reached its handler first: a request of an application goroutine replaced the reader loop while that loop was about to call the handler of n=%d, and the new loop dispatched n=%d at once (no handler ever blocked)", second.n, first.n, first.n, second.n)
			}
		} else if lateBurst && r == replacements-1 && len(e.Parked()) == 1 {
			// the replaced loop comes back from its handler while messages are waiting: it has been replaced, they
			// are the new loop's. The new loop sits between queue and handler with the second message, the third
			// one is still in the queue.
			old := e.Parked()[0]
			parkNext()
			second := deliver()
			if len(e.Parked()) == 2 {
				third := deliver()
				e.MarkRacy() // (unrepaired code: the replaced loop's select has two ready cases - the runtime chooses)
				e.Probe("order.replacedLoopComesBackToNonEmptyQueue")
				e.Logf("the handler of in-%d returns: the replaced loop comes back", first.n)
				e.Resume(old)
				e.Wait()
				w.Pump()
				if entered(third) > 0 && entered(second) == 0 {
					e.Violate("C11.R3", "dispatch-out-of-arrival-order:replaced-loop-keeps-reading", "message n=%d arrived after n=%d and reached its handler first: the reader loop that had been replaced took it from the queue when it came back from its handler (no handler ever blocked)", third.n, second.n)
				}
			}
		}
		resumeAll() // the handler of `first` runs and returns; the replaced loop comes back to an empty queue
		if entered(first) != 1 {
			e.Violate("C11.R1", "message-never-dispatched", "message n=%d was released to its handler and did not get there", first.n)
		}
		flushAnswers()
		if !c.Done() {
			e.Violate("C11.R4", "outside-operation-stalled", "an operation issued by an application goroutine did not return after its answer was handed over")
		}
	}

	// ---- phase B: a burst arrives while the reader sits between the queue and the handler
	parkNext()
	head := deliver()
	if len(e.Parked()) == 0 {
		e.Probe("order.parkMissed")
		return
	}
	e.NonTrivial()
	var rest []*inMsg
	for i := 1; i < burst; i++ {
		in := deliver()
		rest = append(rest, in)
		if entered(in) > 0 && entered(head) == 0 {
			e.Violate("C11.R3", "dispatch-out-of-arrival-order", "message n=%d arrived after n=%d and reached its handler first (no handler ever blocked; the reader loop had been replaced %d times before)", in.n, head.n, replacements)
		}
	}
	resumeAll()
	e.Sleep(time.Second)
	e.Wait()
	w.Pump()
	e.mu.Lock()
	last := 0
	for _, in := range all {
		switch {
		case in.entered == 0:
			e.Violate("C11.R1", "message-never-dispatched", "message n=%d never reached the handler although the connection stayed open", in.n)
		case in.entered > 1:
			e.Violate("C11.R2", "message-dispatched-twice", "message n=%d was handed to the handler %d times", in.n, in.entered)
		case in.seq < last && !overtaken: // (reported above, once)
			e.Violate("C11.R3", "dispatch-out-of-arrival-order", "message n=%d was dispatched before a message that arrived earlier (no handler ever blocked)", in.n)
		}
		if in.seq > last {
			last = in.seq
		}
	}
	e.mu.Unlock()
	_ = rest
}
