package sim

import (
	"encoding/json"
	"flag"
	"fmt"
	"os"
	"runtime"
	"testing"
	"time"
)

var (
	fProp    = flag.String("prop", "", "property id")
	fSeed    = flag.Uint64("seed", 1, "check seed (VERIF_SEED)")
	fFrom    = flag.Uint64("from", 0, "first run index")
	fTo      = flag.Uint64("to", 0, "one past the last run index")
	fOut     = flag.String("out", "", "output JSON path")
	fStatus  = flag.String("status", "", "status file (current run index)")
	fReplay  = flag.String("replay", "", "replay file to re-execute")
	fBudgetS = flag.Int("budget_s", 0, "wall-clock cap in seconds (0 = none)")
	fDump    = flag.Bool("dump", false, "print the log of every run (debug)")
	fHashes  = flag.String("hashes", "", "write 'idx hash racy verdict' per run to this file (determinism self-test)")
)

// watchdog lives outside any bubble and uses the real clock.
func watchdog(stop chan struct{}) {
	last := progress.Load()
	stuck := 0
	for {
		select {
		case <-stop:
			return
		case <-time.After(2 * time.Second):
		}
		cur := progress.Load()
		if cur == last {
			stuck++
		} else {
			stuck = 0
			last = cur
		}
		if stuck >= 15 {
			buf := make([]byte, 4<<20)
			n := runtime.Stack(buf, true)
			fmt.Fprintf(os.Stderr, "WATCHDOG: no phase completed for 30s of real time; goroutines:\n%s\n", buf[:n])
			os.Exit(3)
		}
	}
}

func TestWorker(t *testing.T) {
	if *fProp == "" && *fReplay == "" {
		t.Skip("worker entry point; needs -prop")
	}
	runtime.GOMAXPROCS(1)
	stop := make(chan struct{})
	go watchdog(stop)
	defer close(stop)

	if *fReplay != "" {
		b, err := os.ReadFile(*fReplay)
		if err != nil {
			fmt.Fprintln(os.Stderr, "cannot read replay file:", err)
			os.Exit(2)
		}
		var rf ReplayFile
		if err := json.Unmarshal(b, &rf); err != nil {
			fmt.Fprintln(os.Stderr, "cannot parse replay file:", err)
			os.Exit(2)
		}
		p := Registry[rf.Property]
		if p == nil {
			fmt.Fprintln(os.Stderr, "unknown property", rf.Property)
			os.Exit(2)
		}
		tries := 1
		if rf.Racy {
			tries = 8
		}
		var res *RunResult
		reproduced := false
		for i := 0; i < tries && !reproduced; i++ {
			res = Execute(t, p, NewReplayTape(rf.Tape), true)
			if hasViol(res, rf.Rule, rf.Sig) != nil || (rf.Sig == "undrainable-goroutine" && res.Undrainable != "") {
				reproduced = true
			}
		}
		for _, l := range res.Log {
			fmt.Println(l)
		}
		out := map[string]any{"reproduced": reproduced, "rule": rf.Rule, "sig": rf.Sig, "violations": res.Viol, "hash": res.Hash}
		if *fOut != "" {
			_ = WriteJSON(*fOut, out)
		}
		if reproduced {
			fmt.Printf("REPLAY reproduced rule=%s sig=%s\n", rf.Rule, rf.Sig)
		} else {
			fmt.Printf("REPLAY did-not-reproduce rule=%s sig=%s\n", rf.Rule, rf.Sig)
		}
		return
	}

	p := Registry[*fProp]
	if p == nil {
		fmt.Fprintln(os.Stderr, "unknown property", *fProp)
		os.Exit(2)
	}
	if *fHashes != "" {
		f, err := os.Create(*fHashes)
		if err != nil {
			os.Exit(2)
		}
		for idx := *fFrom; idx < *fTo; idx++ {
			res := Execute(t, p, tapeFor(p, *fSeed, idx), os.Getenv("VERIF_HASHLOGS") != "")
			if os.Getenv("VERIF_HASHLOGS") != "" {
				lf, _ := os.Create(fmt.Sprintf("%s.%d.log", *fHashes, idx))
				for _, l := range res.Log {
					fmt.Fprintln(lf, l)
				}
				lf.Close()
			}
			v := ""
			for _, x := range res.Viol {
				v += x.Rule + "[" + x.Sig + "];"
			}
			fmt.Fprintf(f, "%d %016x %v %s\n", idx, res.Hash, res.Racy, v)
		}
		f.Close()
		return
	}
	if *fDump {
		for idx := *fFrom; idx < *fTo; idx++ {
			res := Execute(t, p, tapeFor(p, *fSeed, idx), true)
			fmt.Printf("=== run %d scenario=%s hash=%x nontrivial=%v phases=%d simtime=%v tape=%d\n", idx, res.Scenario, res.Hash, res.NonTrivial, res.Phases, res.SimTime, len(res.Tape))
			for _, l := range res.Log {
				fmt.Println(l)
			}
			if res.Undrainable != "" {
				fmt.Println("UNDRAINABLE:", res.Undrainable)
			}
		}
		return
	}
	var deadline time.Time
	if *fBudgetS > 0 {
		deadline = time.Now().Add(time.Duration(*fBudgetS) * time.Second)
	}
	out := RunRange(t, p, *fSeed, *fFrom, *fTo, *fStatus, deadline)
	if *fOut != "" {
		if err := WriteJSON(*fOut, out); err != nil {
			fmt.Fprintln(os.Stderr, "cannot write output:", err)
			os.Exit(2)
		}
	}
	fmt.Printf("worker %s [%d,%d): runs=%d nontrivial=%d distinct=%d violations=%d wall=%.1fs\n", p.ID, out.From, out.To, out.Runs, out.NonTrivial, len(out.Hashes), len(out.Violations), out.WallS)
}

func TestInfo(t *testing.T) {
	if *fProp == "" {
		t.Skip("needs -prop")
	}
	p := Registry[*fProp]
	if p == nil {
		fmt.Fprintln(os.Stderr, "unknown property", *fProp)
		os.Exit(2)
	}
	var sc []string
	for _, s := range p.Scenarios {
		sc = append(sc, s.Name)
	}
	b, _ := json.Marshal(map[string]any{"id": p.ID, "title": p.Title, "rule": p.Rule, "quick": p.Quick, "thorough": p.Thorough, "assume": p.Assume, "exhaust_n": p.ExhaustN, "scenarios": sc, "require": p.Require})
	fmt.Println(string(b))
}
