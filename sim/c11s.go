package sim

import (
	"bytes"
	"context"
	"fmt"
	"time"

	"github.com/plgd-dev/go-coap/v3/message"
	"github.com/plgd-dev/go-coap/v3/message/codes"
	"github.com/plgd-dev/go-coap/v3/message/pool"
	"github.com/plgd-dev/go-coap/v3/mux"
	coapNet "github.com/plgd-dev/go-coap/v3/net"
	"github.com/plgd-dev/go-coap/v3/options"
	"github.com/plgd-dev/go-coap/v3/tcp"
	udpServer "github.com/plgd-dev/go-coap/v3/udp/server"

	udpClient "github.com/plgd-dev/go-coap/v3/udp/client"
)

// C11, server scenario: the hand-off from the socket reader into a connection's queue is shared by every connection of
// a udp server (one Serve goroutine reads the socket for all of them). Peer A's handler blocks, A's queue (size 0, 1
// or 2) fills up, the hand-off of A's next message waits - and then A's connection is closed, or the handler returns.
// Either way the socket reader comes back: what peers A (if still open) and B send is dispatched exactly once.

func c11ServerRun(e *Env) {
	t := e.Tape
	qsize := t.Choose(3)
	extra := t.Choose(qsize + 3) // messages of A behind the blocked one: up to one more than queue + hand-off can hold
	closeA := t.Chance(2, 3)
	e.NoAutoRacy = true

	gate := make(chan struct{})
	handled := map[string][]int{}
	router := mux.NewRouter()
	router.DefaultHandle(mux.HandlerFunc(func(rw mux.ResponseWriter, r *mux.Message) {
		if r.Code() == codes.Empty {
			return
		}
		remote := rw.Conn().RemoteAddr().String()
		n := ParseNonce(&WMsg{Opts: Snapshot(r.Message).Opts})
		path, _ := r.Options().Path()
		e.mu.Lock()
		handled[remote] = append(handled[remote], n)
		e.mu.Unlock()
		e.Notef("handler %s n=%d %s", remote, n, path)
		if path == "/block" {
			<-gate
		}
		_ = rw.SetResponse(codes.Content, message.TextPlain, bytes.NewReader([]byte(fmt.Sprintf("done-%d", n))))
	}))

	dn := NewDNet(e)
	srvAddr := UDPAddr("10.0.0.100", 5683)
	sock := dn.Socket(srvAddr, nil)
	sock.WithCM = true
	l := coapNet.NewVerifUDPConn("udp", sock)
	e.OnCleanup(func() { coapNet.VerifForgetUDPConn(l) })
	conns := map[string]*udpClient.Conn{}
	var ticks []func(time.Time) bool
	seam := c10UDPSeam{mid: 7000, tick: func(f func(now time.Time) bool) {
		e.mu.Lock()
		ticks = append(ticks, f)
		e.mu.Unlock()
	}}
	srv := udpServer.New(options.WithMux(router), seam,
		options.WithErrors(func(error) {}),
		options.WithReceivedMessageQueueSize(qsize),
		options.WithOnNewConn(func(cc *udpClient.Conn) {
			e.mu.Lock()
			conns[cc.RemoteAddr().String()] = cc
			e.mu.Unlock()
		}),
		options.WithInactivityMonitor(100000*time.Second, func(cc *udpClient.Conn) { _ = cc.Close() }))
	go func() { _ = srv.Serve(l) }()
	opened := false
	open := func() {
		if !opened {
			opened = true
			close(gate)
		}
	}
	e.OnCleanup(func() { open(); srv.Stop(); _ = l.Close() })
	e.Real("udp/server.Server (Serve loop shared by all connections)", "udp/client.Conn (Process: hand-off into the receive queue)", "net/client.ReceivedMessageReader", "mux.Router")
	a, b := UDPAddr("10.0.1.10", 40000), UDPAddr("10.0.1.11", 40001)
	dn.ScriptedPeer(a, func(*Dgram) {})
	dn.ScriptedPeer(b, func(*Dgram) {})
	e.Wait()
	e.Logf("cfg queue=%d extra=%d closeA=%v", qsize, extra, closeA)

	mid := uint16(100)
	send := func(src int, path string, n int) {
		mid++
		m := &WMsg{Type: TNON, Code: 1, MID: mid, Token: []byte{0x11, byte(n)}, Opts: []WOpt{{Num: OptURIPath, Val: []byte(path[1:])}, {Num: OptURIQuery, Val: []byte(fmt.Sprintf("n=%d", n))}}}
		var d *Dgram
		if src == 0 {
			d = dn.Inject(a, srvAddr, EncodeUDP(m))
		} else {
			d = dn.Inject(b, srvAddr, EncodeUDP(m))
		}
		dn.Take(d)
		dn.Deliver(d)
		e.Logf("peer %s sends n=%d %s", []string{"A", "B"}[src], n, path)
		e.Wait()
	}
	drain := func() {
		for _, p := range dn.PendingList() {
			dn.Take(p)
		}
	}

	send(0, "/block", 0)
	for i := 1; i <= extra; i++ {
		send(0, "/fast", i)
	}
	if extra > qsize {
		e.Probe("server.handOffWaitsForFullQueue")
		e.NonTrivial()
	}
	// peer B's message arrives while A's handler is still blocked (it may have to wait behind A's hand-off) or afterwards
	bEarly := t.Chance(1, 2)
	if bEarly {
		send(1, "/fast", 100)
	}
	e.mu.Lock()
	ccA := conns[a.String()]
	e.mu.Unlock()
	if ccA == nil {
		e.Violate("C11.R1", "message-never-dispatched:server", "peer A's first message did not create a connection")
		open()
		return
	}
	if closeA {
		e.Fault("conn.close")
		e.Logf("the application closes peer A's connection")
		go func() { _ = ccA.Close() }()
		e.Wait()
		if extra > qsize {
			e.Probe("server.connectionClosedWhileHandOffWaits")
		}
	} else {
		e.Logf("peer A's handler returns")
		open()
		e.Wait()
	}
	if !bEarly {
		send(1, "/fast", 100)
	}
	send(1, "/fast", 101)
	e.Sleep(time.Second)
	e.mu.Lock()
	fs := append([]func(time.Time) bool(nil), ticks...)
	e.mu.Unlock()
	for _, f := range fs {
		f(time.Now())
	}
	e.Wait()
	drain()

	e.mu.Lock()
	gotA := append([]int(nil), handled[a.String()]...)
	gotB := append([]int(nil), handled[b.String()]...)
	e.mu.Unlock()
	e.Logf("dispatched: A %v, B %v", gotA, gotB)
	if fmt.Sprint(gotB) != "[100 101]" {
		sig, what := "message-never-dispatched:other-connection-of-the-server", "peer A's handler returned"
		if closeA {
			what = "peer A's connection was closed"
		}
		if len(gotB) > 2 {
			sig = "message-dispatched-twice:server"
		} else if len(gotB) == 2 {
			sig = "dispatch-out-of-arrival-order:server"
		}
		rule := map[string]string{"message-never-dispatched:other-connection-of-the-server": "C11.R1", "message-dispatched-twice:server": "C11.R2", "dispatch-out-of-arrival-order:server": "C11.R3"}[sig]
		e.Violate(rule, sig, "peer B sent n=100 and n=101 to the open server (queue size %d; peer A had %d messages behind a blocked handler, then %s); its handler saw %v", qsize, extra, what, gotB)
	}
	if !closeA {
		var want []int
		for i := 0; i <= extra; i++ {
			want = append(want, i)
		}
		if fmt.Sprint(gotA) != fmt.Sprint(want) {
			sig, rule := "message-never-dispatched:server", "C11.R1"
			if len(gotA) > len(want) {
				sig, rule = "message-dispatched-twice:server", "C11.R2"
			} else if len(gotA) == len(want) {
				sig, rule = "dispatch-out-of-arrival-order:server", "C11.R3"
			}
			e.Violate(rule, sig, "peer A sent %v to a connection that stayed open; its handler saw %v", want, gotA)
		}
	} else {
		seen := map[int]int{}
		for _, n := range gotA {
			seen[n]++
			if seen[n] > 1 {
				e.Violate("C11.R2", "message-dispatched-twice:server", "peer A's message n=%d was dispatched %d times (%v)", n, seen[n], gotA)
			}
		}
	}
	open()
	e.Wait()
}

// C11 with the request limiter of the default configuration (one request at a time per connection): an application
// goroutine has a request outstanding when a message arrives whose handler issues a nested request. The handler has to
// wait for the application's request to finish - and that needs the connection to keep processing what arrives (the
// awaited response of the application's request is a "later incoming message").
func c11LimitedRun(e *Env) {
	t := e.Tape
	tr := PickTransport(t)
	limit := int64(1 + t.Choose(2))
	qsize := []int{16, 0, 1}[t.Choose(3)]
	nstart := uint32(16)
	if IsDatagram(tr) {
		// NSTART (RFC 7252 4.7; default 1) is the other slot a confirmable request has to wait for
		switch t.Choose(3) {
		case 1:
			nstart = 1
		case 2:
			nstart, limit = 1, 0
		}
	}
	nApp := int(limit) // as many application requests as there are slots
	if nApp == 0 {
		nApp = 1
	}
	e.NoAutoRacy = true

	type nested struct {
		entered, returned bool
		err               error
	}
	nst := &nested{}
	router := mux.NewRouter()
	router.DefaultHandle(mux.HandlerFunc(func(rw mux.ResponseWriter, r *mux.Message) {
		if r.Code() == codes.Empty {
			return
		}
		n := ParseNonce(&WMsg{Opts: Snapshot(r.Message).Opts})
		if n != 0 {
			return
		}
		e.mu.Lock()
		nst.entered = true
		e.mu.Unlock()
		e.Notef("handler n=0: issues a nested request")
		ctx, cancel := context.WithTimeout(context.Background(), 20*time.Second)
		defer cancel()
		resp, err := rw.Conn().Get(ctx, "/nested", QueryOpt(1000))
		if resp != nil {
			rw.Conn().ReleaseMessage(resp)
		}
		e.mu.Lock()
		nst.returned, nst.err = true, err
		e.mu.Unlock()
		e.Notef("handler n=0: nested request returned err=%v", err != nil)
		_ = rw.SetResponse(codes.Content, message.TextPlain, bytes.NewReader([]byte("done-0")))
	}))
	var w *CWorld
	if IsDatagram(tr) {
		cfg := SimUDPConfig(int32(t.Choose(65536)))
		cfg.TransmissionNStart = nstart
		cfg.TransmissionAcknowledgeTimeout = 2 * time.Second
		cfg.TransmissionMaxRetransmit = 20
		cfg.ReceivedMessageQueueSize = qsize
		cfg.BlockwiseEnable = false
		cfg.LimitClientParallelRequests = limit
		cfg.LimitClientEndpointParallelRequests = 1
		options.WithMux(router).UDPClientApply(&cfg)
		w = NewCWorld(e, CWorldCfg{Transport: tr, UDP: cfg})
	} else {
		w = NewCWorld(e, CWorldCfg{Transport: tr, TCPOpts: []tcp.Option{
			options.WithMux(router), options.WithReceivedMessageQueueSize(qsize), options.WithCloseSocket(),
			options.WithLimitClientParallelRequest(limit), options.WithLimitClientEndpointParallelRequest(1),
		}})
	}
	if w == nil {
		return
	}
	e.Real("net/client.ReceivedMessageReader", "net/client/limitParallelRequests", "mux.Router (default handler)")
	e.Wait()
	w.Pump()
	e.Logf("cfg transport=%s queue=%d limit=%d nstart=%d", tr, qsize, limit, nstart)

	var appReqs, nestedReqs []*WMsg
	w.OnRecv = func(m *WMsg) {
		if m.Code < 1 || m.Code > 4 {
			return
		}
		if n := ParseNonce(m); n >= 500 && n < 600 {
			appReqs = append(appReqs, m)
		} else if n == 1000 {
			nestedReqs = append(nestedReqs, m)
		}
	}
	answer := func(m *WMsg, pl string) {
		var a *WMsg
		if IsDatagram(tr) && m.Type == TCON {
			a = &WMsg{Type: TACK, Code: 0x45, MID: m.MID, Token: m.Token, Payload: []byte(pl)}
		} else {
			a = &WMsg{Type: TNON, Code: 0x45, MID: w.NextPeerMID(), Token: m.Token, Payload: []byte(pl)}
		}
		it := w.Queue(a, "answer "+pl)
		it.NoDup, it.NoDrop = true, true
		w.Emit(it, false)
		e.Wait()
		w.Pump()
	}
	var calls []*Call
	for i := 0; i < nApp; i++ {
		i := i
		c := e.NewCall(fmt.Sprintf("app%d", i), 500+i, nil, 60*time.Second)
		calls = append(calls, c)
		e.Start(c, func(ctx context.Context) (*pool.Message, error) {
			return w.API.Get(ctx, fmt.Sprintf("/app%d", i), QueryOpt(500+i))
		}, w.API.ReleaseMessage)
		e.Wait()
		w.Pump()
	}
	if len(appReqs) != nApp {
		return // (never seen: every slot was free)
	}
	// the peer's request arrives while every request slot is taken by the application
	it := w.Queue(&WMsg{Type: TNON, Code: 1, MID: 100, Token: []byte{0x11, 0}, Opts: []WOpt{{Num: OptURIPath, Val: []byte("peer")}, {Num: OptURIQuery, Val: []byte("n=0")}}}, "request n=0")
	it.NoDup, it.NoDrop = true, true
	w.Emit(it, false)
	e.Wait()
	w.Pump()
	e.mu.Lock()
	entered := nst.entered
	e.mu.Unlock()
	if !entered {
		e.Violate("C11.R1", "message-never-dispatched", "the peer's request n=0 did not reach the handler")
		return
	}
	e.Probe("nested.waitsForRequestSlot")
	e.NonTrivial()
	// later incoming messages: the answers to the application's requests
	for i, m := range appReqs {
		e.Logf("the peer answers the application's request %d", i)
		answer(m, fmt.Sprintf("app-%d", i))
	}
	e.Sleep(time.Second)
	w.Pump()
	for i, c := range calls {
		if !c.Done() {
			e.Violate("C11.R4", "later-message-not-processed:handler-waits-for-request-slot", "the answer to the application's request %d was handed to the connection a second ago and the call has not returned: a handler that waits for a free request slot (limit %d, NSTART %d) to issue a nested request keeps the connection from processing what arrives", i, limit, nstart)
			break
		}
	}
	// with the slots free again the nested request goes out; the peer answers it
	for i := 0; i < 3 && len(nestedReqs) == 0; i++ {
		e.Sleep(time.Second)
		w.Pump()
	}
	for _, m := range nestedReqs {
		answer(m, "nested")
	}
	e.Sleep(time.Second)
	e.mu.Lock()
	ret := nst.returned
	e.mu.Unlock()
	if !ret && len(nestedReqs) > 0 {
		e.Violate("C11.R4", "nested-operation-stalled:nested-get:limited", "the answer to the nested request was handed to the connection a second ago and the handler's call has not returned")
	}
	e.Sleep(70 * time.Second) // every context has expired by now
	w.Pump()
}

// C11, callbacks other than the message handler: the function given to AsyncPing runs when the pong arrives. Like a
// handler it may issue a blocking request on the same connection; the answer to that request has to be processed while
// the callback waits.
func c11PongCallbackRun(e *Env) {
	t := e.Tape
	tr := PickTransport(t)
	qsize := []int{16, 0, 1}[t.Choose(3)]
	e.NoAutoRacy = true
	var w *CWorld
	if IsDatagram(tr) {
		cfg := SimUDPConfig(int32(t.Choose(65536)))
		cfg.TransmissionNStart = []uint32{16, 1}[t.Choose(2)]
		cfg.TransmissionAcknowledgeTimeout = 2 * time.Second
		cfg.TransmissionMaxRetransmit = 20
		cfg.ReceivedMessageQueueSize = qsize
		cfg.BlockwiseEnable = false
		w = NewCWorld(e, CWorldCfg{Transport: tr, UDP: cfg})
	} else {
		w = NewCWorld(e, CWorldCfg{Transport: tr, TCPOpts: []tcp.Option{options.WithReceivedMessageQueueSize(qsize), options.WithCloseSocket()}})
	}
	if w == nil {
		return
	}
	e.Real("net/client.ReceivedMessageReader", "AsyncPing (pong callback)")
	e.Wait()
	w.Pump()
	e.Logf("cfg transport=%s queue=%d", tr, qsize)
	var pingMsg, nestedMsg *WMsg
	w.OnRecv = func(m *WMsg) {
		switch {
		case IsDatagram(tr) && m.Type == TCON && m.Code == 0, !IsDatagram(tr) && m.Code == 0xe2:
			pingMsg = m
		case m.Code >= 1 && m.Code <= 4 && ParseNonce(m) == 1000:
			nestedMsg = m
		}
	}
	returned := false
	var nestedErr error
	cb := func() {
		e.Notef("pong callback: issues a request")
		ctx, cancel := context.WithTimeout(context.Background(), 20*time.Second)
		defer cancel()
		resp, err := w.API.Get(ctx, "/from-callback", QueryOpt(1000))
		if resp != nil {
			w.API.ReleaseMessage(resp)
		}
		e.mu.Lock()
		returned, nestedErr = true, err
		e.mu.Unlock()
		e.Notef("pong callback: request returned err=%v", err != nil)
	}
	var cancelPing func()
	var err error
	viaSignal := w.UCC == nil && t.Chance(1, 2)
	switch {
	case w.UCC != nil:
		cancelPing, err = w.UCC.AsyncPing(cb)
	case viaSignal:
		// stream transports: the callback for received signalling messages (SetTCPSignalReceivedHandler) is told about
		// the pong of an ordinary ping
		e.Probe("nested.requestFromSignalCallback")
		once := false
		w.TEP.CC.SetTCPSignalReceivedHandler(func(code codes.Code) {
			if code == codes.Pong && !once {
				once = true
				cb()
			}
		})
		cancelPing, err = w.TEP.CC.AsyncPing(func() {})
	default:
		cancelPing, err = w.TEP.CC.AsyncPing(cb)
	}
	if err != nil {
		return
	}
	e.OnCleanup(cancelPing)
	e.Wait()
	w.Pump()
	if pingMsg == nil {
		return
	}
	emit := func(m *WMsg, label string) {
		it := w.Queue(m, label)
		it.NoDup, it.NoDrop = true, true
		w.Emit(it, false)
		e.Wait()
		w.Pump()
	}
	if IsDatagram(tr) {
		emit(&WMsg{Type: TRST, Code: 0, MID: pingMsg.MID}, "pong")
	} else {
		emit(&WMsg{Code: 0xe3, Token: pingMsg.Token}, "pong")
	}
	if nestedMsg == nil {
		e.Violate("C11.R4", "callback-request-not-sent", "the pong was handed to the connection; the request issued by the pong callback has not reached the wire")
		return
	}
	e.NonTrivial()
	e.Probe("nested.requestFromPongCallback")
	if IsDatagram(tr) && nestedMsg.Type == TCON {
		emit(&WMsg{Type: TACK, Code: 0x45, MID: nestedMsg.MID, Token: nestedMsg.Token, Payload: []byte("nested")}, "answer to the callback's request")
	} else {
		emit(&WMsg{Type: TNON, Code: 0x45, MID: w.NextPeerMID(), Token: nestedMsg.Token, Payload: []byte("nested")}, "answer to the callback's request")
	}
	e.Sleep(time.Second)
	w.Pump()
	e.mu.Lock()
	ret, nerr := returned, nestedErr
	e.mu.Unlock()
	if !ret {
		sig, what := "nested-operation-stalled:request-from-pong-callback", "AsyncPing callback"
		if viaSignal {
			sig, what = "nested-operation-stalled:request-from-signal-callback", "signal-received callback"
		}
		e.Violate("C11.R4", sig, "(%s) the answer to the request issued by the AsyncPing callback was handed to the connection a second ago and the request has not returned: the callback runs on the goroutine that reads the connection, nothing is processed while it waits", what)
	} else if nerr != nil {
		e.Violate("C11.R4", "nested-operation-failed:request-from-pong-callback", "the request issued by the AsyncPing callback failed although its answer was handed to the connection: %s", trimErr(nerr))
	}
	e.Sleep(30 * time.Second)
	w.Pump()
}
