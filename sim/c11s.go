package sim

import (
	"bytes"
	"fmt"
	"time"

	"github.com/plgd-dev/go-coap/v3/message"
	"github.com/plgd-dev/go-coap/v3/message/codes"
	"github.com/plgd-dev/go-coap/v3/mux"
	coapNet "github.com/plgd-dev/go-coap/v3/net"
	"github.com/plgd-dev/go-coap/v3/options"
	udpServer "github.com/plgd-dev/go-coap/v3/udp/server"

	udpClient "github.com/plgd-dev/go-coap/v3/udp/client"
)

// C11, server scenario: the hand-off from the socket reader into a connection's queue is shared by every connection of
// a udp server (one Serve goroutine reads the socket for all of them). Peer A's handler blocks, A's queue (size 0, 1
// or 2) fills up, the hand-off of A's next message waits - and then A's connection is closed, or the handler returns.
// Either way the socket reader comes back: what peers A (if still open) and B send is dispatched exactly once.

func c11ServerRun(e *Env) {
	t := e.Tape
	qsize := t.Choose(3)
	extra := t.Choose(qsize + 3) // messages of A behind the blocked one: up to one more than queue + hand-off can hold
	closeA := t.Chance(2, 3)
	e.NoAutoRacy = true

	gate := make(chan struct{})
	handled := map[string][]int{}
	router := mux.NewRouter()
	router.DefaultHandle(mux.HandlerFunc(func(rw mux.ResponseWriter, r *mux.Message) {
		if r.Code() == codes.Empty {
			return
		}
		remote := rw.Conn().RemoteAddr().String()
		n := ParseNonce(&WMsg{Opts: Snapshot(r.Message).Opts})
		path, _ := r.Options().Path()
		e.mu.Lock()
		handled[remote] = append(handled[remote], n)
		e.mu.Unlock()
		e.Notef("handler %s n=%d %s", remote, n, path)
		if path == "/block" {
			<-gate
		}
		_ = rw.SetResponse(codes.Content, message.TextPlain, bytes.NewReader([]byte(fmt.Sprintf("done-%d", n))))
	}))

	dn := NewDNet(e)
	srvAddr := UDPAddr("10.0.0.100", 5683)
	sock := dn.Socket(srvAddr, nil)
	sock.WithCM = true
	l := coapNet.NewVerifUDPConn("udp", sock)
	e.OnCleanup(func() { coapNet.VerifForgetUDPConn(l) })
	conns := map[string]*udpClient.Conn{}
	var ticks []func(time.Time) bool
	seam := c10UDPSeam{mid: 7000, tick: func(f func(now time.Time) bool) {
		e.mu.Lock()
		ticks = append(ticks, f)
		e.mu.Unlock()
	}}
	srv := udpServer.New(options.WithMux(router), seam,
		options.WithErrors(func(error) {}),
		options.WithReceivedMessageQueueSize(qsize),
		options.WithOnNewConn(func(cc *udpClient.Conn) {
			e.mu.Lock()
			conns[cc.RemoteAddr().String()] = cc
			e.mu.Unlock()
		}),
		options.WithInactivityMonitor(100000*time.Second, func(cc *udpClient.Conn) { _ = cc.Close() }))
	go func() { _ = srv.Serve(l) }()
	opened := false
	open := func() {
		if !opened {
			opened = true
			close(gate)
		}
	}
	e.OnCleanup(func() { open(); srv.Stop(); _ = l.Close() })
	e.Real("udp/server.Server (Serve loop shared by all connections)", "udp/client.Conn (Process: hand-off into the receive queue)", "net/client.ReceivedMessageReader", "mux.Router")
	a, b := UDPAddr("10.0.1.10", 40000), UDPAddr("10.0.1.11", 40001)
	dn.ScriptedPeer(a, func(*Dgram) {})
	dn.ScriptedPeer(b, func(*Dgram) {})
	e.Wait()
	e.Logf("cfg queue=%d extra=%d closeA=%v", qsize, extra, closeA)

	mid := uint16(100)
	send := func(src int, path string, n int) {
		mid++
		m := &WMsg{Type: TNON, Code: 1, MID: mid, Token: []byte{0x11, byte(n)}, Opts: []WOpt{{Num: OptURIPath, Val: []byte(path[1:])}, {Num: OptURIQuery, Val: []byte(fmt.Sprintf("n=%d", n))}}}
		var d *Dgram
		if src == 0 {
			d = dn.Inject(a, srvAddr, EncodeUDP(m))
		} else {
			d = dn.Inject(b, srvAddr, EncodeUDP(m))
		}
		dn.Take(d)
		dn.Deliver(d)
		e.Logf("peer %s sends n=%d %s", []string{"A", "B"}[src], n, path)
		e.Wait()
	}
	drain := func() {
		for _, p := range dn.PendingList() {
			dn.Take(p)
		}
	}

	send(0, "/block", 0)
	for i := 1; i <= extra; i++ {
		send(0, "/fast", i)
	}
	if extra > qsize {
		e.Probe("server.handOffWaitsForFullQueue")
		e.NonTrivial()
	}
	// peer B's message arrives while A's handler is still blocked (it may have to wait behind A's hand-off) or afterwards
	bEarly := t.Chance(1, 2)
	if bEarly {
		send(1, "/fast", 100)
	}
	e.mu.Lock()
	ccA := conns[a.String()]
	e.mu.Unlock()
	if ccA == nil {
		e.Violate("C11.R1", "message-never-dispatched:server", "peer A's first message did not create a connection")
		open()
		return
	}
	if closeA {
		e.Fault("conn.close")
		e.Logf("the application closes peer A's connection")
		go func() { _ = ccA.Close() }()
		e.Wait()
		if extra > qsize {
			e.Probe("server.connectionClosedWhileHandOffWaits")
		}
	} else {
		e.Logf("peer A's handler returns")
		open()
		e.Wait()
	}
	if !bEarly {
		send(1, "/fast", 100)
	}
	send(1, "/fast", 101)
	e.Sleep(time.Second)
	e.mu.Lock()
	fs := append([]func(time.Time) bool(nil), ticks...)
	e.mu.Unlock()
	for _, f := range fs {
		f(time.Now())
	}
	e.Wait()
	drain()

	e.mu.Lock()
	gotA := append([]int(nil), handled[a.String()]...)
	gotB := append([]int(nil), handled[b.String()]...)
	e.mu.Unlock()
	e.Logf("dispatched: A %v, B %v", gotA, gotB)
	if fmt.Sprint(gotB) != "[100 101]" {
		sig, what := "message-never-dispatched:other-connection-of-the-server", "peer A's handler returned"
		if closeA {
			what = "peer A's connection was closed"
		}
		if len(gotB) > 2 {
			sig = "message-dispatched-twice:server"
		} else if len(gotB) == 2 {
			sig = "dispatch-out-of-arrival-order:server"
		}
		rule := map[string]string{"message-never-dispatched:other-connection-of-the-server": "C11.R1", "message-dispatched-twice:server": "C11.R2", "dispatch-out-of-arrival-order:server": "C11.R3"}[sig]
		e.Violate(rule, sig, "peer B sent n=100 and n=101 to the open server (queue size %d; peer A had %d messages behind a blocked handler, then %s); its handler saw %v", qsize, extra, what, gotB)
	}
	if !closeA {
		var want []int
		for i := 0; i <= extra; i++ {
			want = append(want, i)
		}
		if fmt.Sprint(gotA) != fmt.Sprint(want) {
			sig, rule := "message-never-dispatched:server", "C11.R1"
			if len(gotA) > len(want) {
				sig, rule = "message-dispatched-twice:server", "C11.R2"
			} else if len(gotA) == len(want) {
				sig, rule = "dispatch-out-of-arrival-order:server", "C11.R3"
			}
			e.Violate(rule, sig, "peer A sent %v to a connection that stayed open; its handler saw %v", want, gotA)
		}
	} else {
		seen := map[int]int{}
		for _, n := range gotA {
			seen[n]++
			if seen[n] > 1 {
				e.Violate("C11.R2", "message-dispatched-twice:server", "peer A's message n=%d was dispatched %d times (%v)", n, seen[n], gotA)
			}
		}
	}
	open()
	e.Wait()
}
