package sim

import (
	"bytes"
	"context"
	"fmt"
	"time"

	"github.com/plgd-dev/go-coap/v3/message"
	"github.com/plgd-dev/go-coap/v3/message/codes"
	"github.com/plgd-dev/go-coap/v3/message/pool"
	"github.com/plgd-dev/go-coap/v3/mux"
	"github.com/plgd-dev/go-coap/v3/net/blockwise"
	"github.com/plgd-dev/go-coap/v3/options"
	"github.com/plgd-dev/go-coap/v3/tcp"
	udpClient "github.com/plgd-dev/go-coap/v3/udp/client"
)

// C04 — block-wise transfer delivers the exact body exactly once, or fails.
//
// Two real endpoints end to end: UDP (real Session + UDPConn on the simulated
// datagram network, with retransmission and de-duplication in the loop) and
// TCP (real tcp.Client on both ends of a simulated stream; a well-formed CSM
// with the Block-Wise-Transfer option is injected in each direction, because
// go-coap's own CSM never carries it).

func init() {
	Register(&PropDef{
		ID:    "C04",
		Title: "Block-wise transfer delivers the exact body exactly once, or fails",
		Rule: "two real endpoints; 1-3 concurrent logical transfers (upload, download, both, one-way write, observe notification with a large body) with position-dependent bodies of size 0, 1, k*b-1, k*b, k*b+1 (k<=5, b = negotiated block size) or random; SZX pair 0..6 (0..7 with BERT on streams); per-datagram deliver / drop / duplicate / reorder / late replay, ticks, cancellation (UDP); segmentation (TCP); " +
			"non-trivial = at least one transfer needed more than one block; distinct = distinct event-log hash",
		Scenarios: []Scenario{
			{Name: "S-BLOCK/udp-faultfree", Weight: 10, Run: func(e *Env) { c04Run(e, TrUDP, false) }},
			{Name: "S-BLOCK/udp-faults", Weight: 30, Run: func(e *Env) { c04Run(e, TrUDP, true) }},
			{Name: "S-BLOCK/tcp", Weight: 20, Run: func(e *Env) { c04Run(e, TrTCP, false) }},
			{Name: "S-BLOCK/scripted-download", Weight: 20, Run: c04ScriptedDownload},
			{Name: "S-BLOCK/scripted-upload", Weight: 20, Run: c04ScriptedUpload},
			{Name: "S-BLOCK/scripted-fetch", Weight: 15, Run: c04ScriptedFetch},
			{Name: "S-BLOCK/scripted-client-upload", Weight: 3, Run: c04ScriptedClientUpload},
			{Name: "S-BLOCK/scripted-slow-fetch-from-server", Weight: 3, Run: c04ScriptedSlowFetchFromServer},
			{Name: "S-BLOCK/scripted-upload-at-deadline", Weight: 3, Run: c04ScriptedUploadAtDeadline},
			{Name: "S-BLOCK/huge-upload", Weight: 1, Run: c04HugeUpload},
		},
		Quick:    150000,
		Thorough: 1500000,
		Require:  []string{"fetch.restartWhileCached", "upload.blockNumberNeedsThreeBytes", "transfer.multiBlock", "transfer.completed", "transfer.failed", "block.staleReplay", "block.etagChange", "block.outOfOrder", "block.staleAfterCompletion", "block.foreignTokenDiffersOnlyInLength", "dgram.drop", "dgram.dup", "time.transferTimeout", "oneway.nonConfirmable", "clientUpload.peerGoesAway", "slowFetch.longerThanTheTransferTimeout", "uploadAtDeadline.continueArrivesInTheInstantOfTheDeadline"},
		Assume: []string{
			"the property does not promise success: a failed transfer is never a violation; completion in fault-free runs is reported as a probe (transfer.completed vs transfer.failed)",
			"stream endpoints get an injected, well-formed CSM with Block-Wise-Transfer (any RFC 8323 peer may send it); two go-coap stream endpoints would otherwise never use block-wise with each other",
		},
	})
}

const (
	xUp = iota
	xDown
	xBoth
	xOneWay
	xObserve
	numXfer
)

var c04KindNames = [...]string{"upload", "download", "both", "one-way", "observe-notification"}

type c04Xfer struct {
	nonce    int
	kind     int
	upSize   int
	downSize int
	nonWrite bool // one-way: the write is non-confirmable
	call     *Call
	started  bool
	// receiving side records
	handlerBodies [][]byte
	handlerCF     []int
	gotDown       []byte
	notified      [][]byte
	obsToken      message.Token
	obsRegistered bool
	notifySent    bool
	cancelled     bool
	// the caller chose the token itself; while the transfer runs a second caller uses the same token by mistake
	ownToken message.Token
	intruder *Call
}

func c04Sizes(t *Tape, b int) int {
	switch t.Weighted(2, 6, 2) {
	case 0:
		return t.Choose(2)
	case 1:
		k := 1 + t.Choose(5)
		return k*b - 1 + t.Choose(3)
	default:
		return t.Choose(6*b + 1)
	}
}

func c04Run(e *Env, tr string, faults bool) { c04RunOpt(e, tr, faults, false) }

// c04RunOpt runs the block-wise workload; with audit it ends with C13's drain-and-audit of both endpoints.
func c04RunOpt(e *Env, tr string, faults bool, audit bool) {
	t := e.Tape
	maxSZX := 7 // 0..6
	szxA := blockwise.SZX(t.Choose(maxSZX))
	szxB := blockwise.SZX(t.Choose(maxSZX))
	bert := false
	if tr == TrTCP && t.Chance(1, 4) {
		szxA, szxB, bert = blockwise.SZXBERT, blockwise.SZXBERT, true
	}
	nb := szxA
	if szxB < nb {
		nb = szxB
	}
	b := int(nb.Size())
	// BERT: a block is floor(sender's max message size / 1024) * 1024 bytes and the frame that carries it is
	// larger than that maximum, so two endpoints with equal maxima cannot talk BERT to each other at all.
	// BERT runs therefore transfer in one direction only, from an endpoint with a small maximum (2048) to one
	// with a large maximum (8192) - which is what RFC 8323's Max-Message-Size negotiation would give.
	bertDown := true
	maxA, maxB := uint32(65536), uint32(65536)
	if bert {
		b = 2048
		bertDown = t.Chance(1, 2)
		if bertDown {
			maxA, maxB = 8192, 2048
		} else {
			maxA, maxB = 2048, 8192
		}
	}
	nX := 1 + t.Choose(3)
	xfers := make([]*c04Xfer, nX)
	for i := range xfers {
		x := &c04Xfer{nonce: i, kind: t.Weighted(3, 3, 2, 1, 1)}
		if bert {
			if bertDown {
				x.kind = []int{xDown, xObserve}[t.Weighted(3, 1)]
			} else {
				x.kind = []int{xUp, xOneWay}[t.Weighted(3, 1)]
			}
		}
		x.upSize, x.downSize = c04Sizes(t, b), c04Sizes(t, b)
		x.nonWrite = x.kind == xOneWay && IsDatagram(tr) && t.Chance(1, 2)
		xfers[i] = x
	}
	upBody := func(x *c04Xfer) []byte { return Body(100+x.nonce, x.upSize) }
	downBody := func(x *c04Xfer) []byte { return Body(200+x.nonce, x.downSize) }
	etagOf := func(x *c04Xfer) []byte { return []byte{0xe0, byte(x.nonce), 0x55} }

	var connB mux.Conn
	// ---- server-side handler (endpoint B)
	rB := mux.NewRouter()
	rB.DefaultHandle(mux.HandlerFunc(func(w mux.ResponseWriter, r *mux.Message) {
		path, _ := r.Options().Path()
		q, _ := r.Options().Queries()
		n := -1
		for _, s := range q {
			_, _ = fmt.Sscanf(s, "n=%d", &n)
		}
		if n < 0 || n >= len(xfers) {
			e.Notef("B handler: unexpected %v %s", r.Code(), path)
			return
		}
		x := xfers[n]
		if e.Pool.Enabled {
			e.Pool.Hold(r.Message, fmt.Sprintf("request n=%d inside its handler", n))
			snap := Snapshot(r.Message)
			e.Pool.CheckHandover(snap, "request handed to a handler")
			defer func() {
				e.Pool.CheckHeld(r.Message, snap)
				e.Pool.Unhold(r.Message)
			}()
		}
		var body []byte
		if r.Body() != nil {
			body, _ = r.ReadBody()
		}
		cf := -1
		if v, err := r.ContentFormat(); err == nil {
			cf = int(v)
		}
		// A request that carries a Block2 option with NUM > 0 and no body asks for one block of the response
		// ("random access", RFC 7959 2.4); for a PUT/POST the server has to run the method again to produce
		// it. That is how a late or mismatched continuation request shows up; it is not a body hand-over.
		if b2, err := r.GetOptionUint32(message.Block2); err == nil && b2>>4 > 0 && len(body) == 0 {
			e.Probe("handler.randomAccessContinuation")
			e.Notef("B handler n=%d %s: continuation request for response block %d (no body)", n, path, b2>>4)
			if (r.Code() == codes.POST || r.Code() == codes.PUT) && x.upSize > 0 {
				// For a GET that is random access. A POST/PUT that asks for a later block of its response is the
				// continuation of an exchange whose request body the application was given before: running the method
				// again, on an empty body, is a second - and wrong - hand-over.
				e.Violate("C04.R2", "method-re-executed-on-an-empty-body:"+c04KindNames[x.kind], "transfer n=%d: the request handler was run again for a %v that asks for block %d of its response and carries no body (the application supplied %d bytes)", n, r.Code(), b2>>4, x.upSize)
			}
			if path == "/both" || path == "/down" {
				_ = w.SetResponse(codes.Content, message.AppOctets, bytes.NewReader(downBody(x)), message.Option{ID: message.ETag, Value: etagOf(x)})
			}
			return
		}
		e.mu.Lock()
		connB = w.Conn()
		switch path {
		case "/up", "/both", "/oneway":
			x.handlerBodies = append(x.handlerBodies, append([]byte(nil), body...))
			x.handlerCF = append(x.handlerCF, cf)
		}
		e.mu.Unlock()
		e.Notef("B handler n=%d %s body=%d", n, path, len(body))
		switch path {
		case "/up":
			_ = w.SetResponse(codes.Changed, message.TextPlain, bytes.NewReader([]byte(fmt.Sprintf("ok-%d", n))))
		case "/down", "/both":
			_ = w.SetResponse(codes.Content, message.AppOctets, bytes.NewReader(downBody(x)), message.Option{ID: message.ETag, Value: etagOf(x)})
		case "/obs":
			if obs, err := r.Observe(); err == nil && obs == 0 {
				e.mu.Lock()
				x.obsToken = append(message.Token(nil), r.Token()...)
				x.obsRegistered = true
				e.mu.Unlock()
				_ = w.SetResponse(codes.Content, message.TextPlain, bytes.NewReader([]byte("reg")), message.Option{ID: message.Observe, Value: []byte{2}})
			} else {
				_ = w.SetResponse(codes.Content, message.TextPlain, bytes.NewReader([]byte("dereg")))
			}
		case "/sametoken":
			_ = w.SetResponse(codes.Content, message.TextPlain, bytes.NewReader([]byte("sametoken")))
		case "/oneway":
		}
	}))
	rA := mux.NewRouter()
	rA.DefaultHandle(mux.HandlerFunc(func(mux.ResponseWriter, *mux.Message) {}))

	// ---- the two endpoints
	var apiA ClientAPI
	var tickA, tickB func(now time.Time)
	var sizesA, sizesB func() map[string]int
	var closedA, closedB func() bool
	var dn *DNet
	var sa, sb *SimConn
	ackTO := 2 * time.Second
	// request slots: switched off, or the defaults of the configuration (one request at a time, NSTART 1)
	slots, nstart := int64(0), uint32(16)
	if t.Chance(1, 3) {
		slots, nstart = 1, 1
		e.Probe("config.defaultRequestSlots")
	}
	addrA, addrB := UDPAddr("10.0.0.1", 5000), UDPAddr("10.0.0.2", 5683)
	var nf NetFaults
	if tr == TrUDP {
		dn = NewDNet(e)
		mk := func(szx blockwise.SZX, r *mux.Router, mid int32) udpClient.Config {
			cfg := SimUDPConfig(mid)
			cfg.BlockwiseEnable = true
			cfg.BlockwiseSZX = szx
			cfg.BlockwiseTransferTimeout = 5 * time.Second
			cfg.TransmissionAcknowledgeTimeout = ackTO
			cfg.TransmissionMaxRetransmit = 4
			cfg.TransmissionNStart = nstart
			cfg.LimitClientParallelRequests, cfg.LimitClientEndpointParallelRequests = slots, slots
			options.WithMux(r).UDPClientApply(&cfg)
			return cfg
		}
		epA := NewUDPEndpoint(e, dn, UDPEndpointCfg{Cfg: mk(szxA, rA, 1000), Local: addrA, Remote: addrB})
		epB := NewUDPEndpoint(e, dn, UDPEndpointCfg{Cfg: mk(szxB, rB, 30000), Local: addrB, Remote: addrA})
		apiA = epA.CC
		e.mu.Lock()
		connB = epB.CC
		e.mu.Unlock()
		tickA, tickB = epA.Tick, epB.Tick
		sizesA, sizesB = epA.CC.VerifTableSizes, epB.CC.VerifTableSizes
		closedA = func() bool { return epA.CC.Context().Err() != nil }
		closedB = func() bool { return epB.CC.Context().Err() != nil }
		nf = NetFaults{DeliverW: 8}
		if faults {
			nf.DropToEP, nf.DropToPeer = t.Choose(3), t.Choose(3)
			nf.DupToEP, nf.DupToPeer = t.Choose(3), t.Choose(3)
		}
	} else {
		sa, sb = NewStream(e, TCPAddr("10.0.0.1", 40000), TCPAddr("10.0.0.2", 5683))
		mkOpts := func(szx blockwise.SZX, r *mux.Router, max uint32) []tcp.Option {
			return []tcp.Option{options.WithMux(r), options.WithBlockwise(true, szx, 5*time.Second), options.WithCloseSocket(),
				options.WithLimitClientParallelRequest(slots), options.WithLimitClientEndpointParallelRequest(slots), options.WithMaxMessageSize(max)}
		}
		epA, errA := NewTCPEndpoint(e, sa, TCPEndpointCfg{Opts: mkOpts(szxA, rA, maxA)})
		epB, errB := NewTCPEndpoint(e, sb, TCPEndpointCfg{Opts: mkOpts(szxB, rB, maxB)})
		if errA != nil || errB != nil {
			e.Violate("HARNESS", "client-setup", "tcp.Client failed: %v %v", errA, errB)
			return
		}
		e.Real("net/blockwise")
		apiA = epA.CC
		e.mu.Lock()
		connB = epB.CC
		e.mu.Unlock()
		tickA, tickB = epA.Tick, epB.Tick
		sizesA, sizesB = epA.CC.VerifTableSizes, epB.CC.VerifTableSizes
		closedA = func() bool { return epA.CC.Context().Err() != nil }
		closedB = func() bool { return epB.CC.Context().Err() != nil }
		// the injected CSM (Block-Wise-Transfer, Max-Message-Size), right after the real ones
		csm := EncodeTCP(&WMsg{Code: 0xe1, Token: []byte{0x01}, Opts: []WOpt{UintOpt(OptTCPMaxMsgSize, 65536), {Num: OptTCPBlockWise}}})
		e.Wait()
		sa.ReleaseIn(1 << 30)
		sb.ReleaseIn(1 << 30)
		e.Wait()
		sa.InjectIn(csm)
		sb.InjectIn(csm)
		sa.ReleaseIn(1 << 30)
		sb.ReleaseIn(1 << 30)
		e.Wait()
	}
	e.Logf("cfg transport=%s faults=%v szxA=%d szxB=%d block=%d bert=%v transfers=%d netfaults=%+v", tr, faults, szxA, szxB, b, bert, nX, nf)
	for _, x := range xfers {
		e.Logf("transfer n=%d kind=%s up=%d down=%d", x.nonce, c04KindNames[x.kind], x.upSize, x.downSize)
		if (x.kind == xUp || x.kind == xBoth || x.kind == xOneWay) && x.upSize > b || (x.kind == xDown || x.kind == xBoth || x.kind == xObserve) && x.downSize > b {
			e.NonTrivial()
			e.Probe("transfer.multiBlock")
		}
	}

	start := func(x *c04Xfer) {
		x.started = true
		if x.kind == xUp && t.Chance(1, 2) {
			x.ownToken = message.Token{0xa4, byte(x.nonce), 0x04}
		}
		x.call = e.NewCall(fmt.Sprintf("xfer%d", x.nonce), x.nonce, nil, 120*time.Second)
		e.Logf("start transfer n=%d (%s)", x.nonce, c04KindNames[x.kind])
		e.Start(x.call, func(ctx context.Context) (*pool.Message, error) {
			switch x.kind {
			case xUp:
				if x.ownToken != nil {
					m := apiA.AcquireMessage(ctx)
					defer apiA.ReleaseMessage(m)
					if err := m.SetupPost("/up", x.ownToken, message.AppOctets, bytes.NewReader(upBody(x)), QueryOpt(x.nonce)); err != nil {
						return nil, err
					}
					return apiA.Do(m)
				}
				return apiA.(mux.Conn).Post(ctx, "/up", message.AppOctets, bytes.NewReader(upBody(x)), QueryOpt(x.nonce))
			case xDown:
				return apiA.Get(ctx, "/down", QueryOpt(x.nonce))
			case xBoth:
				return apiA.(mux.Conn).Put(ctx, "/both", message.AppOctets, bytes.NewReader(upBody(x)), QueryOpt(x.nonce))
			case xOneWay:
				m := apiA.AcquireMessage(ctx)
				defer apiA.ReleaseMessage(m)
				tok, _ := apiA.GetToken()
				if err := m.SetupPost("/oneway", tok, message.AppOctets, bytes.NewReader(upBody(x)), QueryOpt(x.nonce)); err != nil {
					return nil, err
				}
				if x.nonWrite {
					// what a one-way write usually is: non-confirmable, nothing comes back
					e.Probe("oneway.nonConfirmable")
					m.SetType(message.NonConfirmable)
				}
				return nil, apiA.WriteMessage(m)
			default:
				_, err := apiA.Observe(ctx, "/obs", func(n *pool.Message) {
					var body []byte
					if n.Body() != nil {
						body, _ = n.ReadBody()
					}
					e.mu.Lock()
					x.notified = append(x.notified, append([]byte(nil), body...))
					e.mu.Unlock()
					e.Notef("A observe callback n=%d body=%d", x.nonce, len(body))
				}, QueryOpt(x.nonce))
				return nil, err
			}
		}, apiA.ReleaseMessage)
	}

	netEvents := func() []Event {
		var evs []Event
		if tr == TrUDP {
			for _, d := range dn.PendingList() {
				d := d
				toB := d.Dst.String() == addrB.String()
				evs = append(evs, Event{Label: "deliver", W: nf.DeliverW, Do: func() {
					e.Logf("deliver %s #%d %s", c04Dir(toB), d.ID, descr(d.Data))
					dn.Take(d)
					dn.Deliver(d)
				}})
				drop, dup := nf.DropToEP, nf.DupToEP
				if toB {
					drop, dup = nf.DropToPeer, nf.DupToPeer
				}
				if drop > 0 {
					evs = append(evs, Event{Label: "drop", W: drop, Do: func() {
						e.Fault("dgram.drop")
						e.Logf("drop %s #%d", c04Dir(toB), d.ID)
						dn.Take(d)
					}})
				}
				if dup > 0 && d.Dups < 2 {
					evs = append(evs, Event{Label: "dup", W: dup, Do: func() {
						d.Dups++
						e.Fault("dgram.dup")
						e.Logf("dup-deliver %s #%d %s", c04Dir(toB), d.ID, descr(d.Data))
						dn.Deliver(d)
					}})
				}
			}
			return evs
		}
		for _, side := range []struct {
			c    *SimConn
			name string
		}{{sa, "B->A"}, {sb, "A->B"}} {
			side := side
			if n := side.c.PendingIn(); n > 0 {
				evs = append(evs, Event{Label: "release", W: 6, Do: func() {
					e.Logf("stream %s: release all %d bytes", side.name, n)
					side.c.ReleaseIn(n)
				}})
				if n > 1 {
					evs = append(evs, Event{Label: "segment", W: 2, Do: func() {
						k := 1 + t.Choose(n-1)
						e.Fault("stream.segment")
						e.Logf("stream %s: release %d of %d bytes", side.name, k, n)
						side.c.ReleaseIn(k)
					}})
				}
			}
		}
		return evs
	}

	ticks := 0
	for e.Budget() {
		evs := netEvents()
		allDone := true
		for _, x := range xfers {
			x := x
			if !x.started {
				allDone = false
				evs = append(evs, Event{Label: "start", W: 5, Do: func() { start(x) }})
				continue
			}
			if x.intruder != nil && !x.intruder.Done() {
				allDone = false
			}
			// (not with request slots: both calls may be queued, run one after the other and re-use the token
			// sequentially - with duplicated answers in flight that is C03's known finding, not a block-wise matter)
			if slots == 0 && !x.call.Done() && x.ownToken != nil && x.intruder == nil {
				evs = append(evs, Event{Label: "same-token", W: 2, Do: func() {
					// refused at once, or - when the upload happens to be over already - an ordinary small exchange
					x.intruder = e.NewCall(fmt.Sprintf("sametoken%d", x.nonce), 50+x.nonce, nil, 30*time.Second)
					e.Probe("token.reusedDuringTransfer")
					e.Logf("a second caller issues a request with the token of transfer n=%d (%x)", x.nonce, x.ownToken)
					e.Start(x.intruder, func(ctx context.Context) (*pool.Message, error) {
						m := apiA.AcquireMessage(ctx)
						defer apiA.ReleaseMessage(m)
						if err := m.SetupGet("/sametoken", x.ownToken, QueryOpt(x.nonce)); err != nil {
							return nil, err
						}
						return apiA.Do(m)
					}, apiA.ReleaseMessage)
				}})
			}
			if !x.call.Done() {
				allDone = false
				if faults && !x.cancelled {
					evs = append(evs, Event{Label: "cancel", W: 1, Do: func() {
						x.cancelled = true
						e.Fault("ctx.cancel")
						e.Logf("cancel transfer n=%d", x.nonce)
						e.CancelCall(x.call)
					}})
				}
			}
			e.mu.Lock()
			reg, sent := x.obsRegistered, x.notifySent
			cb := connB
			e.mu.Unlock()
			if x.kind == xObserve && reg && !sent && x.call.Done() {
				allDone = false
				evs = append(evs, Event{Label: "notify", W: 4, Do: func() {
					x.notifySent = true
					e.Logf("B sends a notification with a %d byte body for n=%d", x.downSize, x.nonce)
					go func() {
						ctx, cancel := context.WithTimeout(context.Background(), 60*time.Second)
						defer cancel()
						m := cb.AcquireMessage(ctx)
						defer cb.ReleaseMessage(m)
						m.SetCode(codes.Content)
						m.SetToken(x.obsToken)
						m.SetObserve(7)
						m.SetContentFormat(message.AppOctets)
						m.SetBody(bytes.NewReader(downBody(x)))
						if err := cb.WriteMessage(m); err != nil {
							e.Notef("B notification write failed: %s", trimErr(err))
						}
					}()
				}})
			}
			if x.kind == xObserve && x.notifySent {
				e.mu.Lock()
				got := len(x.notified)
				e.mu.Unlock()
				if got < 2 && ticks < 12 {
					allDone = false
				}
			}
		}
		if allDone && len(evs) == 0 {
			break
		}
		if tr == TrUDP && (faults || len(evs) == 0) && ticks < 40 {
			evs = append(evs, Event{Label: "tick", W: 2, Do: func() {
				ticks++
				dt := []time.Duration{ackTO + time.Millisecond, time.Millisecond, 500 * time.Millisecond, 6 * time.Second}[t.Choose(4)]
				e.Logf("advance %v then tick both", dt)
				e.Sleep(dt)
				e.Fault("tick")
				tickA(time.Now())
				e.Wait()
				tickB(time.Now())
			}})
		}
		if len(evs) == 0 {
			// stream run with nothing in flight but an unfinished transfer: let its deadline pass
			e.Logf("advance 10s")
			e.Sleep(10 * time.Second)
			ticks++
			tickA(time.Now())
			tickB(time.Now())
			e.Wait()
			if ticks > 14 {
				break
			}
			continue
		}
		e.Pick(evs).Do()
		e.Wait()
	}
	// heal and drain: deliver everything in order, tick, let deadlines pass
	for round := 0; round < 8; round++ {
		for i := 0; i < 400; i++ {
			moved := false
			if tr == TrUDP {
				if p := dn.PendingList(); len(p) > 0 {
					dn.Take(p[0])
					dn.Deliver(p[0])
					moved = true
				}
			} else {
				if sa.PendingIn() > 0 || sb.PendingIn() > 0 {
					sa.ReleaseIn(1 << 30)
					sb.ReleaseIn(1 << 30)
					moved = true
				}
			}
			if !moved {
				break
			}
			e.Wait()
		}
		done := true
		for _, x := range xfers {
			if x.started && !x.call.Done() {
				done = false
			}
		}
		if done && round >= 2 {
			break
		}
		e.Sleep(ackTO + time.Millisecond)
		tickA(time.Now())
		e.Wait()
		tickB(time.Now())
		e.Wait()
	}
	e.Sleep(130 * time.Second) // every call deadline has passed
	if audit {
		// C13: pass the exchange lifetime and the block-wise timeout with ticks, deliver stragglers, then read the tables
		for _, dt := range []time.Duration{6 * time.Second, 120 * time.Second, 130 * time.Second, time.Second} {
			e.Sleep(dt)
			tickA(time.Now())
			e.Wait()
			tickB(time.Now())
			e.Wait()
			for i := 0; i < 50; i++ {
				if tr == TrUDP {
					p := dn.PendingList()
					if len(p) == 0 {
						break
					}
					dn.Take(p[0])
					dn.Deliver(p[0])
				} else {
					if sa.PendingIn() == 0 && sb.PendingIn() == 0 {
						break
					}
					sa.ReleaseIn(1 << 30)
					sb.ReleaseIn(1 << 30)
				}
				e.Wait()
			}
		}
		e.Sleep(250 * time.Second)
		tickA(time.Now())
		e.Wait()
		tickB(time.Now())
		e.Wait()
		live := 0
		for _, x := range xfers {
			if x.kind == xObserve && x.started && x.call.Done() {
				if _, err := x.call.Result(); err == nil {
					live++
				}
			}
			if x.started {
				if _, err := x.call.Result(); err != nil {
					e.NonTrivial()
				}
			}
		}
		if !closedA() {
			auditTables(e, "endpoint A", sizesA(), live)
		}
		if !closedB() {
			auditTables(e, "endpoint B", sizesB(), 0)
		}
		return
	}
	// ---- oracle
	for _, x := range xfers {
		if !x.started {
			continue
		}
		name := c04KindNames[x.kind]
		if !x.call.Done() {
			e.Violate("C04.R5", "transfer-hangs:"+name, "transfer n=%d (%s) has not returned 10 s after its 120 s deadline", x.nonce, name)
			continue
		}
		resp, err := x.call.Result()
		// "completed" = the call returned the final response the handler produced. An error response
		// (>= 4.00) or a 2.31 Continue means the exchange did not complete - which the property allows.
		if err == nil && resp != nil && (resp.Code >= 0x80 || resp.Code == 0x5f) {
			err = fmt.Errorf("exchange ended with response code %d.%02d", resp.Code>>5, resp.Code&31)
			e.Probe("transfer.endedWithErrorResponse")
			if resp.Code == 0x5f && !faults && !x.cancelled {
				// Under network faults a 2.31 handed back to the caller is read as "did not complete" (relaxed oracle).
				// With a fault-free network nothing stands in the way of the exchange: ending it with the peer's
				// intermediate "continue" as the call's successful result is neither completion nor an error or timeout.
				e.Violate("C04.R5", "ended-with-continue-as-its-result:"+name, "transfer n=%d (%s, %d bytes up): the call returned 2.31 Continue without an error on a fault-free network; the request handler received %d bodies", x.nonce, name, x.upSize, len(x.handlerBodies))
			}
		}
		e.mu.Lock()
		hb := x.handlerBodies
		hcf := x.handlerCF
		notified := x.notified
		e.mu.Unlock()
		checkBody := func(where string, got, want []byte) {
			if bytes.Equal(got, want) {
				return
			}
			sig := "body-differs"
			switch {
			case len(got) < len(want) && bytes.Equal(got, want[:len(got)]):
				sig = "partial-body-presented-as-complete"
			case len(got) > len(want) && bytes.Equal(got[:len(want)], want):
				sig = "body-extended"
			case len(got) == len(want):
				sig = "body-corrupted"
			}
			e.Violate("C04.R1", sig+":"+name, "transfer n=%d (%s): %s got %d bytes, the sending application supplied %d bytes (block %d, szx %d/%d)", x.nonce, name, where, len(got), len(want), b, szxA, szxB)
		}
		// uploads
		if x.kind == xUp || x.kind == xBoth || x.kind == xOneWay {
			if len(hb) > 1 {
				e.Violate("C04.R2", "body-handed-over-twice:"+name, "transfer n=%d (%s): the request handler received the body %d times", x.nonce, name, len(hb))
			}
			for i, body := range hb {
				checkBody("the request handler", body, upBody(x))
				if hcf[i] != int(message.AppOctets) {
					e.Violate("C04.R3", "content-format-lost:"+name, "transfer n=%d (%s): handler saw content format %d, sent %d", x.nonce, name, hcf[i], message.AppOctets)
				}
			}
			if err == nil && len(hb) == 0 && x.kind != xOneWay {
				e.Violate("C04.R2", "success-without-delivery:"+name, "transfer n=%d (%s) succeeded but the request handler never received the body", x.nonce, name)
			}
		}
		// downloads
		if err == nil && (x.kind == xDown || x.kind == xBoth) {
			if resp == nil {
				e.Violate("C04.R1", "nil-response:"+name, "transfer n=%d succeeded without a response", x.nonce)
			} else {
				checkBody("the caller", resp.Payload, downBody(x))
				if et, ok := resp.Opt(OptETag); !ok || !bytes.Equal(et, etagOf(x)) {
					e.Violate("C04.R3", "etag-lost:"+name, "transfer n=%d: response ETag %x, sent %x", x.nonce, et, etagOf(x))
				}
				if cf, ok := resp.Opt(OptContentFormat); !ok || len(cf) != 1 || cf[0] != byte(message.AppOctets) {
					e.Violate("C04.R3", "content-format-lost:"+name, "transfer n=%d: response content format %x", x.nonce, cf)
				}
			}
		}
		if err == nil && x.kind == xUp && resp != nil && string(resp.Payload) != fmt.Sprintf("ok-%d", x.nonce) {
			e.Violate("C04.R4", "foreign-response:"+name, "transfer n=%d returned %q", x.nonce, resp.Payload)
		}
		if x.kind == xObserve {
			for i, body := range notified {
				if i == 0 {
					if string(body) != "reg" {
						e.Violate("C04.R1", "registration-answer-differs:"+name, "n=%d: first callback body %q", x.nonce, body)
					}
					continue
				}
				checkBody("the observe callback", body, downBody(x))
			}
			if len(notified) > 2 {
				e.Violate("C04.R2", "body-handed-over-twice:"+name, "transfer n=%d: %d notifications reached the callback for one sent", x.nonce, len(notified)-1)
			}
		}
		if err == nil {
			e.Probe("transfer.completed")
		} else {
			e.Probe("transfer.failed")
			if !faults && !x.cancelled {
				e.Probe("transfer.failedWithoutFaults")
				e.Logf("note: fault-free transfer n=%d (%s up=%d down=%d) failed: %s", x.nonce, name, x.upSize, x.downSize, trimErr(err))
				if tr == TrUDP {
					// On the fault-free datagram network nothing is lost or duplicated and time only passes when nothing is
					// left to deliver: the exchange can complete, so it has to (as in the scripted fault-free downloads)
					e.Violate("C04.R5", "fault-free-transfer-failed:"+name, "transfer n=%d (%s up=%d down=%d) on a network without faults, not cancelled, ended with: %s", x.nonce, name, x.upSize, x.downSize, trimErr(err))
				}
			}
		}
	}
}

func c04Dir(toB bool) string {
	if toB {
		return "A->B"
	}
	return "B->A"
}
