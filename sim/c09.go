package sim

import (
	"bytes"
	"context"
	"fmt"
	"sync"
	"syscall"
	"time"

	"github.com/plgd-dev/go-coap/v3/message"
	"github.com/plgd-dev/go-coap/v3/message/codes"
	"github.com/plgd-dev/go-coap/v3/message/pool"
	"github.com/plgd-dev/go-coap/v3/mux"
	"github.com/plgd-dev/go-coap/v3/net/client"
	"github.com/plgd-dev/go-coap/v3/options"
	"github.com/plgd-dev/go-coap/v3/tcp"
)

// C09 — blocking calls always end on cancellation or close; close is clean.

func init() {
	Register(&PropDef{
		ID:    "C09",
		Title: "Blocking calls always end on cancellation or close; close is clean",
		Rule: "1-4 blocking operations (request, observe registration, observation cancel, ping, confirmable one-way write) on one real connection (UDP, DTLS shim, TCP, TLS shim; limiter 0/1) against a peer that is silent, sends garbage, acknowledges without answering, stalls the stream (bounded send buffer, never reads) or stalls the handshake; the interruption (context cancel, deadline, local Close from 1-3 goroutines, peer FIN / reset) lands wherever the tape puts it; " +
			"non-trivial = an operation was still blocked when the interruption came; distinct = distinct event-log hash",
		Scenarios: []Scenario{{Name: "S-LIVE/client", Weight: 5, Run: c09Run},
			{Name: "S-LIVE/discovery", Weight: 1, Run: c09DiscoveryRun},
			// Stop / Serve of the servers while peers stall handshakes, connect and stay silent, or are mid-exchange:
			// the server workloads of C10, reporting the rules that concern Stop
			{Name: "S-LIVE/server-stop-tcp", Weight: 1, Run: func(e *Env) {
				e.RuleRename, e.RulePrefix = [2]string{"C10.R5", "C09.R5"}, "C09."
				c10Twin(e, "tcp")
			}},
			{Name: "S-LIVE/server-stop-dtls", Weight: 1, Run: func(e *Env) {
				e.RuleRename, e.RulePrefix = [2]string{"C10.R5", "C09.R5"}, "C09."
				c10Twin(e, "dtls")
			}}},
		Quick:    200000,
		Thorough: 3000000,
		Require:  []string{"adv.handshake.stall", "blocked.when:local-close", "blocked.when:peer-fin", "blocked.when:peer-reset", "interrupted.whileBlocked:cancel", "close.whileReaderBlockedOnFullQueue", "socket.deadOnArrival", "onClose.registeredLate", "onClose.registeredAfterTheEnd", "handshake.entered", "discovery.mode.listenerClosedWhile"},
		Assume: []string{
			"bounded delay D = one tick interval (4 s) + 1 s of simulated time after the interrupting event (for a deadline: after the deadline), with one housekeeping tick in between and nothing further delivered",
			"connections are built like Dial does (the library owns and closes the socket); Stop / Serve of the tcp and dtls servers are checked by hosting C10's server workloads (rule C09.R5: Serve returns after Stop, nothing stays blocked)",
		},
	})
}

const (
	oGet = iota
	oObserve
	oCancelObs
	oPing
	oWrite
	numLiveOps
)

var c09OpNames = [...]string{"request", "observe", "cancel-observation", "ping", "one-way-write"}

const (
	pSilent = iota
	pGarbage
	pAckOnly
	pStallStream
	pStallHandshake
	pAnswerThenSilent
)

var c09PeerNames = [...]string{"silent", "garbage", "ack-without-response", "stalled-stream", "stalled-handshake", "answers-first-then-silent"}

type c09Op struct {
	idx           int
	kind          int
	call          *Call
	timeout       time.Duration
	started       time.Duration
	interruptedAt time.Duration // when an interrupt that must end it happened (0 = none yet)
	interruptKind string
	reported      bool
}

func c09Run(e *Env) {
	t := e.Tape
	tr := PickTransport(t)
	peer := []int{pSilent, pGarbage, pAckOnly, pStallStream, pStallHandshake, pAnswerThenSilent}[t.Weighted(4, 2, 2, 2, 2, 2)]
	if peer == pAckOnly && !IsDatagram(tr) {
		peer = pSilent
	}
	if peer == pStallStream && IsDatagram(tr) {
		peer = pSilent
	}
	if peer == pStallHandshake && tr != TrDTLS {
		// on TLS the handshake happens inside tcp.Client (first write: the CSM): that is the connect-and-stall scenario
		peer = pSilent
	}
	limit := []int64{0, 1}[t.Choose(2)]
	nOps := 1 + t.Choose(4)
	// the socket is dead on arrival: the very first write of the library (the CSM) fails
	deadSocket := t.Chance(1, 6) && !IsDatagram(tr) && peer == pSilent
	// the application's handler is stuck in application code, the receive queue is tiny and the peer keeps
	// sending requests: the reader ends up blocked handing a message to the queue when the interruption comes
	busy := t.Chance(1, 4) && !deadSocket && peer != pStallHandshake
	qsize := t.Choose(2)
	flood := 3 + t.Choose(3)
	gate := make(chan struct{})
	var gateOnce sync.Once
	openGate := func() { gateOnce.Do(func() { close(gate) }) }
	e.OnCleanup(openGate)
	entered := 0
	router := mux.NewRouter()
	router.DefaultHandle(mux.HandlerFunc(func(rw mux.ResponseWriter, r *mux.Message) {
		select {
		case <-gate:
			return // the run is being wound up: whatever the reader still hands over is not part of the story
		default:
		}
		e.mu.Lock()
		entered++
		e.mu.Unlock()
		e.Notef("handler entered and blocks in application code")
		<-gate
	}))
	const tickEvery = 4 * time.Second
	const D = tickEvery + time.Second

	var w *CWorld
	var hsClosed <-chan struct{}
	hsLock := make(chan struct{}, 1)
	handshake := func(ctx context.Context) error {
		if peer != pStallHandshake {
			return nil
		}
		// crypto/tls and pion/dtls let one caller at a time into the handshake - a mutex taken at the top of
		// HandshakeContext, before the context is looked at - and the first caller is the connection's own read loop,
		// whose context never expires. (A channel here: a wait for a sync.Mutex would not be durable in the bubble.)
		hsLock <- struct{}{}
		defer func() { <-hsLock }()
		e.Probe("handshake.entered")
		// a stalled handshake ends when its context ends or the socket is closed underneath it
		select {
		case <-ctx.Done():
		case <-hsClosed:
		}
		// Close cancels the context and closes the socket back to back: decide by priority, not by the
		// runtime's coin toss between two ready cases
		select {
		case <-hsClosed:
			return fmt.Errorf("handshake: connection closed")
		default:
			return ctx.Err()
		}
	}
	// the socket is the library's to close (Dial, WithCloseSocket), or it belongs to the application (udp.Client(conn),
	// tcp.Client(conn), dtls.Client(conn) as they come): Close then leaves it open - and still has to complete
	// (also against the peers that stall a stream or a handshake: Close leaves the socket open there, so the blocked
	// write / the handshake a request is running has to be ended by the connection's context)
	ownSocket := t.Chance(1, 4)
	if ownSocket {
		e.Probe("socket.ownedByTheApplication")
	}
	if IsDatagram(tr) {
		cfg := SimUDPConfig(int32(t.Choose(65536)))
		cfg.TransmissionNStart = uint32(1 + t.Choose(2)*7)
		cfg.TransmissionAcknowledgeTimeout = 2 * time.Second
		cfg.TransmissionMaxRetransmit = 2
		cfg.LimitClientParallelRequests = limit
		cfg.BlockwiseEnable = t.Chance(1, 3)
		if busy {
			cfg.ReceivedMessageQueueSize = qsize
			options.WithMux(router).UDPClientApply(&cfg)
		}
		w = NewCWorld(e, CWorldCfg{Transport: tr, UDP: cfg, Handshake: handshake, OwnSocket: ownSocket})
		if w != nil && w.PC != nil {
			hsClosed = w.PC.ClosedCh()
		}
	} else {
		topts := []tcp.Option{
			options.WithLimitClientParallelRequest(limit), options.WithLimitClientEndpointParallelRequest(0),
		}
		if !ownSocket {
			topts = append(topts, options.WithCloseSocket())
		}
		if busy {
			topts = append(topts, options.WithMux(router), options.WithReceivedMessageQueueSize(qsize))
		}
		w = NewCWorld(e, CWorldCfg{Transport: tr, Handshake: handshake, TCPOpts: topts, PreStart: func(sc *SimConn) {
			if deadSocket {
				e.Fault("socket.deadOnArrival")
				sc.WriteErr = syscall.ECONNRESET
			}
		}})
		if w != nil {
			hsClosed = w.SC.ClosedCh()
		}
	}
	if w == nil {
		return
	}
	if ownSocket {
		e.OnCleanup(w.CloseSocketByOwner) // the application closes its socket in the end
	}
	if peer == pStallStream {
		w.SC.LimitOut(8) // the peer stopped reading: the send buffer is full after the first frame
	}
	// on-close callbacks: some registered before the connection's goroutines get to run at all, up to two later, at
	// any moment - also after the connection has ended: "every registered on-close callback exactly once"
	onClose := make([]int, 1+t.Choose(3))
	for i := range onClose {
		i := i
		w.API.AddOnClose(func() {
			e.mu.Lock()
			onClose[i]++
			e.mu.Unlock()
			e.Notef("on-close callback %d", i)
		})
	}
	lateCallbacks := 0
	addOnClose := func(afterEnd bool) {
		e.mu.Lock()
		i := len(onClose)
		onClose = append(onClose, 0)
		e.mu.Unlock()
		if afterEnd {
			e.Probe("onClose.registeredAfterTheEnd")
		} else {
			e.Probe("onClose.registeredLate")
		}
		e.Logf("application registers on-close callback %d (connection ended: %v)", i, afterEnd)
		w.API.AddOnClose(func() {
			e.mu.Lock()
			onClose[i]++
			e.mu.Unlock()
			e.Notef("on-close callback %d", i)
		})
	}
	e.Wait()
	e.Logf("cfg transport=%s peer=%s limit=%d ops=%d dead-socket=%v busy-handler=%v queue=%d", tr, c09PeerNames[peer], limit, nOps, deadSocket, busy, qsize)
	if busy {
		for i := 0; i < flood; i++ {
			m := &WMsg{Type: TCON, Code: 1, MID: w.NextPeerMID(), Token: []byte{0xb5, byte(i)}, Opts: []WOpt{{Num: OptURIPath, Val: []byte("busy")}}}
			it := w.Queue(m, fmt.Sprintf("flood-%d", i))
			it.NoDrop = true
		}
	}
	floodIn := 0
	w.OnEmit = func(it *OutItem, dup bool) {
		if len(it.Label) > 5 && it.Label[:5] == "flood" {
			floodIn++
		}
	}
	readerBlocked := func() bool {
		e.mu.Lock()
		defer e.mu.Unlock()
		return busy && entered > 0 && floodIn > entered+qsize
	}

	var liveObs client.Observation
	answered := 0
	w.OnRecv = func(m *WMsg) {
		switch peer {
		case pAckOnly:
			if m.Type == TCON {
				w.Queue(&WMsg{Type: TACK, Code: 0, MID: m.MID}, "empty-ack")
			}
		case pAnswerThenSilent:
			// answer the very first observe registration so that a cancel-observation can be issued later
			if _, isObs := m.OptUint(OptObserve); isObs && answered == 0 && m.Code == 1 {
				answered++
				if IsDatagram(tr) && m.Type == TCON {
					w.Queue(&WMsg{Type: TACK, Code: 0x45, MID: m.MID, Token: m.Token, Opts: []WOpt{UintOpt(OptObserve, 3)}, Payload: []byte("reg")}, "registration-answer")
				} else {
					w.Queue(&WMsg{Type: TNON, Code: 0x45, MID: w.NextPeerMID(), Token: m.Token, Opts: []WOpt{UintOpt(OptObserve, 3)}, Payload: []byte("reg")}, "registration-answer")
				}
			}
		}
	}
	pump := func() {
		if peer != pStallStream {
			w.Pump()
		}
	}
	pump()

	var ops []*c09Op
	nstartChanged := 0
	closedAt := time.Duration(-1)
	closeReturned := 0
	closeCalls := 0
	peerClosed := false
	closed := func() bool { return w.API.Context().Err() != nil }

	startOp := func(kind int) {
		o := &c09Op{idx: len(ops), kind: kind}
		o.timeout = []time.Duration{0, 10 * time.Second, 3 * time.Second, 1000 * time.Second}[t.Choose(4)]
		o.call = e.NewCall(fmt.Sprintf("op%d-%s", o.idx, c09OpNames[kind]), o.idx, nil, o.timeout)
		o.started = e.Now()
		ops = append(ops, o)
		e.Logf("start op%d %s timeout=%v", o.idx, c09OpNames[kind], o.timeout)
		if closed() {
			// issued on a connection that is already closed: it has to end as well
			o.interruptedAt, o.interruptKind = e.Now(), "issued-after-close"
		}
		e.Start(o.call, func(ctx context.Context) (*pool.Message, error) {
			switch kind {
			case oGet:
				return w.API.Get(ctx, "/x", QueryOpt(o.idx))
			case oObserve:
				ob, err := w.API.Observe(ctx, "/o", func(*pool.Message) {}, QueryOpt(o.idx))
				if err == nil {
					e.mu.Lock()
					liveObs = ob
					e.mu.Unlock()
				}
				return nil, err
			case oCancelObs:
				e.mu.Lock()
				ob := liveObs
				liveObs = nil
				e.mu.Unlock()
				if ob == nil {
					return nil, nil
				}
				return nil, ob.Cancel(ctx)
			case oPing:
				return nil, w.API.Ping(ctx)
			default:
				m := w.API.AcquireMessage(ctx)
				defer w.API.ReleaseMessage(m)
				m.SetCode(codes.Content)
				m.SetToken(message.Token{0x71, byte(o.idx)})
				m.SetBody(bytes.NewReader([]byte("one-way")))
				return nil, w.API.WriteMessage(m)
			}
		}, w.API.ReleaseMessage)
	}
	noteBlocked := func(kind string) {
		for _, o := range ops {
			if !o.call.Done() {
				e.NonTrivial()
				e.Probe("blocked.when:" + kind)
			}
		}
	}
	interruptAll := func(kind string) {
		for _, o := range ops {
			if !o.call.Done() && o.interruptedAt == 0 {
				o.interruptedAt, o.interruptKind = e.Now(), kind
				e.NonTrivial()
				e.Probe("interrupted.whileBlocked:" + kind)
			}
		}
	}
	check := func() {
		for _, o := range ops {
			if o.reported || o.call.Done() {
				continue
			}
			// deadline
			if o.timeout > 0 && o.interruptedAt == 0 && e.Now() >= o.call.Deadline {
				o.interruptedAt, o.interruptKind = o.call.Deadline, "deadline"
				e.NonTrivial()
			}
			if o.interruptedAt > 0 && e.Now() >= o.interruptedAt+D {
				o.reported = true
				sig := fmt.Sprintf("call-not-ended:%s:%s", c09OpNames[o.kind], o.interruptKind)
				ctxInterrupt := o.interruptKind == "cancel" || o.interruptKind == "deadline"
				switch {
				case peer == pStallStream && ctxInterrupt:
					// the operation sits in a stream Write that the peer does not drain
					sig = "call-not-ended:blocked-stream-write-ignores-request-context"
				case peer == pStallHandshake && o.kind == oPing && ctxInterrupt:
					// the ping message is written with the connection's context, not the caller's
					sig = "call-not-ended:ping-write-ignores-caller-context"
				case peer == pStallStream:
					sig += ":stalled-stream"
				}
				e.Violate("C09.R1", sig, "op%d (%s) started at %v has not returned %v after %s (at %v); peer=%s transport=%s", o.idx, c09OpNames[o.kind], o.started, e.Now()-o.interruptedAt, o.interruptKind, o.interruptedAt, c09PeerNames[peer], tr)
			}
		}
	}

	for step := 0; step < 40 && e.Budget(); step++ {
		evs := w.Events(3)
		if len(ops) < nOps {
			evs = append(evs, Event{Label: "start", W: 5, Do: func() {
				kind := t.Weighted(4, 2, 1, 2, 2)
				startOp(kind)
			}})
		}
		for _, o := range ops {
			o := o
			if !o.call.Done() && !o.call.Cancelled && o.interruptedAt == 0 {
				evs = append(evs, Event{Label: "cancel", W: 2, Do: func() {
					e.Logf("cancel context of op%d", o.idx)
					e.Fault("ctx.cancel")
					o.interruptedAt, o.interruptKind = e.Now(), "cancel"
					e.NonTrivial()
					e.Probe("interrupted.whileBlocked:cancel")
					e.CancelCall(o.call)
				}})
			}
		}
		if closeCalls == 0 {
			evs = append(evs, Event{Label: "close", W: 2, Do: func() {
				n := 1 + t.Choose(3)
				closeCalls = n
				e.Logf("application calls Close from %d goroutines", n)
				e.Fault("conn.close")
				noteBlocked("local-close")
				if readerBlocked() {
					e.NonTrivial()
					e.Probe("close.whileReaderBlockedOnFullQueue")
				}
				closedAt = e.Now()
				for i := 0; i < n; i++ {
					go func() {
						_ = w.API.Close()
						_ = w.API.Close() // idempotent
						e.mu.Lock()
						closeReturned++
						e.mu.Unlock()
					}()
				}
			}})
		}
		if !peerClosed && closeCalls == 0 {
			if !IsDatagram(tr) {
				evs = append(evs, Event{Label: "peer-fin", W: 1, Do: func() {
					peerClosed = true
					e.Logf("peer closes the stream (FIN)")
					e.Fault("peer.fin")
					noteBlocked("peer-fin")
					w.SC.PeerFIN()
				}}, Event{Label: "peer-reset", W: 1, Do: func() {
					peerClosed = true
					e.Logf("peer resets the stream")
					e.Fault("peer.reset")
					noteBlocked("peer-reset")
					w.SC.Reset()
				}})
			}
			if peer == pGarbage {
				evs = append(evs, Event{Label: "garbage", W: 3, Do: func() {
					peerClosed = true
					e.Logf("peer sends garbage")
					e.Fault("peer.garbage")
					noteBlocked("peer-garbage")
					it := w.Queue(nil, "garbage")
					it.Raw = []byte{0xff, 0xff, 0xff, 0xff, 0xff, 0xff, 0xff, 0x01, 0x02}
					w.Emit(it, false)
				}})
			}
		}
		if IsDatagram(tr) && nstartChanged < 2 {
			// the application re-tunes the connection while requests are queued behind NSTART
			evs = append(evs, Event{Label: "set-nstart", W: 2, Do: func() {
				nstartChanged++
				n := uint32(1 + t.Choose(3))
				e.Fault("conn.nstartChanged")
				e.Logf("application sets NSTART to %d", n)
				w.UCC.Transmission().SetTransmissionNStart(n)
			}})
		}
		if lateCallbacks < 2 {
			// the application registers one more on-close callback - whenever it gets round to it: a client connection
			// does not exist before Dial returns and may have ended (the peer closed it, its first write failed) by then
			evs = append(evs, Event{Label: "add-on-close", W: 1, Do: func() {
				lateCallbacks++
				addOnClose(closed())
			}})
		}
		evs = append(evs, Event{Label: "advance", W: 3, Do: func() {
			dt := []time.Duration{tickEvery, time.Second, 2 * time.Second, 7 * time.Second}[t.Choose(4)]
			e.Logf("advance %v then tick", dt)
			e.Sleep(dt)
			e.Fault("tick")
			w.Tick(time.Now())
		}})
		ev := e.Pick(evs)
		ev.Do()
		e.Wait()
		pump()
		if closed() {
			if closedAt < 0 {
				closedAt = e.Now()
			}
			interruptAll("connection-closed")
		}
		check()
		alldone := len(ops) >= nOps
		for _, o := range ops {
			if !o.call.Done() {
				alldone = false
			}
		}
		if alldone && (closeCalls > 0 || t.Chance(1, 3)) {
			break
		}
	}
	// tail: close (if nobody did), then D must be enough for everything to end
	if closeCalls == 0 {
		closeCalls = 1
		closedAt = e.Now()
		e.Logf("tail: application closes the connection")
		interruptAll("local-close")
		if readerBlocked() {
			e.NonTrivial()
			e.Probe("close.whileReaderBlockedOnFullQueue")
		}
		go func() {
			_ = w.API.Close()
			e.mu.Lock()
			closeReturned++
			e.mu.Unlock()
		}()
		e.Wait()
	}
	for i := 0; i < 3; i++ {
		e.Sleep(tickEvery)
		w.Tick(time.Now())
		e.Wait()
		check()
	}
	e.Sleep(D)
	check()
	if t.Chance(1, 3) {
		// and one registered when everything is over
		addOnClose(true)
		e.Wait()
	}
	// R2: Close returned (every call of it)
	e.mu.Lock()
	cr := closeReturned
	e.mu.Unlock()
	if cr != closeCalls {
		e.Violate("C09.R2", "close-did-not-return", "%d goroutines called Close, %d returned", closeCalls, cr)
	}
	// R3: done signal
	select {
	case <-w.API.Done():
	default:
		e.Violate("C09.R3", "done-not-signalled", "the connection was closed at %v but Done() is still open at %v", closedAt, e.Now())
	}
	// R4: every on-close callback exactly once
	e.mu.Lock()
	ran := append([]int(nil), onClose...)
	e.mu.Unlock()
	for i, n := range ran {
		if n != 1 {
			sig := "on-close-callback-not-run"
			if n > 1 {
				sig = "on-close-callback-ran-twice"
			}
			e.Violate("C09.R4", sig, "on-close callback %d ran %d times", i, n)
		}
	}
	openGate()
	// release whatever is still blocked so that the run can be torn down (R6 is the drain check of the engine)
	for _, o := range ops {
		if !o.call.Done() {
			e.CancelCall(o.call)
		}
	}
	if w.SC != nil {
		w.SC.LimitOut(0)
		_ = w.SC.Close()
	}
}
