package sim

import (
	"context"
	"fmt"
	"io"
	"sort"
	"strings"

	"github.com/plgd-dev/go-coap/v3/message"
	"github.com/plgd-dev/go-coap/v3/message/codes"
	"github.com/plgd-dev/go-coap/v3/message/pool"
	"github.com/plgd-dev/go-coap/v3/mux"
	"github.com/plgd-dev/go-coap/v3/net/responsewriter"
	udpClient "github.com/plgd-dev/go-coap/v3/udp/client"
)

// C17 — router dispatches to a longest matching route, else the default.
//
// What the simulation contributes is the schedules half: Handle / HandleRemove /
// DefaultHandle / ServeCOAP by 1-3 tasks, interleaved at the router's yield
// point between its two read-locked sections; route sets and paths are sampled.

func init() {
	Register(&PropDef{
		ID:    "C17",
		Title: "Router dispatches to a longest matching route, else the default",
		Rule: "1-3 tasks x 1-4 operations {Handle, HandleRemove, DefaultHandle, ServeCOAP} on one router with two middlewares; patterns from literals (incl. regexp metacharacters and U+FFFD), {var}, {var:regex} and a trailing greedy variable; paths of 0-3 segments (incl. segments that are not well-formed UTF-8: Uri-Path values are opaque bytes on the wire); cooperative scheduling with a park point between the router's two read-locked sections; " +
			"non-trivial = a dispatch overlapped a registration/removal, or at least two registered patterns matched the path; distinct = distinct event-log hash (route sets and paths are sampled, not enumerated)",
		Scenarios: []Scenario{{Name: "M-ROUTER", Weight: 4, Run: c17Run}, {Name: "S-ROUTE/wire", Weight: 1, Run: c17WireRun}},
		Quick:     300000,
		Thorough:  20000000,
		Require:   []string{"wire.emptySegment", "wire.skippedOptionBeforePath", "dispatch.throughToHandler", "dispatch.overlapsAnotherOperation", "path.matchedSeveralPatterns"},
		Assume: []string{
			"generated {var:regex} sub-patterns have a unique decomposition (they never match '/', or a single greedy variable ends the pattern), so the independent segment-wise reference matcher need not imitate the regexp engine's preferences",
			"under concurrency a dispatch is judged against every route set that existed at some instant during the call; data-race freedom is not decidable by a cooperative scheduler (its hand-offs create happens-before edges) and is not claimed by this check",
		},
	})
}

type c17Seg struct {
	lit   string // literal segment
	name  string // variable name ("" = literal)
	class int    // 0 any non-empty without '/', 1 digits, 2 [a-c]+, 3 greedy rest (.*), only as last segment
}

type c17Pattern struct {
	text string
	segs []c17Seg
}

func c17MakePattern(t *Tape) c17Pattern {
	n := t.Choose(4) // 0 segments = "/"
	var p c17Pattern
	if n == 0 {
		p.text = "/"
		return p
	}
	for i := 0; i < n; i++ {
		var s c17Seg
		switch t.Weighted(5, 2, 1, 1, 1) {
		case 0:
			s.lit = []string{"a", "b", "a.b", "c+", "ab", "12", "a(b", "\uFFFD", "a\uFFFDb"}[t.Choose(9)]
		case 1:
			s.name, s.class = fmt.Sprintf("v%d", i), 0
		case 2:
			s.name, s.class = fmt.Sprintf("d%d", i), 1
		case 3:
			s.name, s.class = fmt.Sprintf("l%d", i), 2
		default:
			if i == n-1 {
				s.name, s.class = "rest", 3
			} else {
				s.lit = "a"
			}
		}
		p.segs = append(p.segs, s)
		switch {
		case s.name == "":
			p.text += "/" + s.lit
		case s.class == 0:
			p.text += "/{" + s.name + "}"
		case s.class == 1:
			p.text += "/{" + s.name + ":[0-9]+}"
		case s.class == 2:
			p.text += "/{" + s.name + ":[a-c]+}"
		default:
			p.text += "/{" + s.name + ":.*}"
		}
	}
	return p
}

func c17ClassMatch(class int, s string) bool {
	if class == 3 {
		return true
	}
	if s == "" {
		return false
	}
	for _, c := range s {
		switch class {
		case 0:
			if c == '/' {
				return false
			}
		case 1:
			if c < '0' || c > '9' {
				return false
			}
		case 2:
			if c < 'a' || c > 'c' {
				return false
			}
		}
	}
	return true
}

// c17Match is the independent reference matcher: does pattern match the entire path, and with which variables?
func c17Match(p c17Pattern, path string) (bool, map[string]string) {
	if path == "" {
		path = "/"
	}
	vars := map[string]string{}
	if len(p.segs) == 0 {
		return path == "/", vars
	}
	rest := path
	for i, s := range p.segs {
		if !strings.HasPrefix(rest, "/") {
			return false, nil
		}
		rest = rest[1:]
		if s.class == 3 && s.name != "" {
			vars[s.name] = rest
			return true, vars
		}
		end := strings.IndexByte(rest, '/')
		seg := rest
		if end >= 0 {
			seg = rest[:end]
			rest = rest[end:]
		} else {
			rest = ""
		}
		if s.name == "" {
			if seg != s.lit {
				return false, nil
			}
		} else {
			if !c17ClassMatch(s.class, seg) {
				return false, nil
			}
			vars[s.name] = seg
		}
		if i == len(p.segs)-1 && rest != "" {
			return false, nil
		}
	}
	return true, vars
}

type c17RW struct{}

func (c17RW) SetResponse(codes.Code, message.MediaType, io.ReadSeeker, ...message.Option) error {
	return nil
}
func (c17RW) Conn() mux.Conn           { return nil }
func (c17RW) SetMessage(*pool.Message) {}
func (c17RW) Message() *pool.Message   { return nil }

type c17State struct {
	seq    int64
	routes map[string]int // pattern text -> handler id
	def    int            // default handler id
}

type c17Dispatch struct {
	task      int
	path      string
	call, ret int64
	invoked   []string // trace: middleware ids then handler id
	handler   int
	pattern   string // pattern of the invoked handler ("" = a default handler)
	vars      map[string]string
}

func c17Run(e *Env) {
	t := e.Tape
	e.Real("mux.Router", "mux/regexp", "mux middleware chain", "message.Options.Path")
	nTasks := 1 + t.Choose(3)
	e.EnableParkAll("task.op")
	e.EnableParkAll("mux.ServeCOAP.betweenLocks")
	e.EnableParkAll("auto.unlock") // yields inserted at build time after every non-deferred Unlock()/RUnlock() of router.go
	r := mux.NewRouter()
	r.SetErrorHandler(func(error) {})

	// pattern pool of this run
	nPat := 2 + t.Choose(4)
	pats := make([]c17Pattern, nPat)
	patByText := map[string]c17Pattern{}
	for i := range pats {
		pats[i] = c17MakePattern(t)
		patByText[pats[i].text] = pats[i]
	}
	paths := []string{}
	for i := 0; i < 4; i++ {
		n := t.Choose(4)
		p := ""
		for j := 0; j < n; j++ {
			p += "/" + []string{"a", "b", "a.b", "aXb", "12", "ab", "c", "c+", "cc", "a(b", "\xff", "a\xffb", "\uFFFD", "a\uFFFDb", "a\xc0\x80b"}[t.Choose(15)]
		}
		paths = append(paths, p)
	}

	var seq int64
	tick := func() int64 { e.mu.Lock(); seq++; v := seq; e.mu.Unlock(); return v }
	handlerOwner := map[int]string{} // handler id -> pattern text ("" default)
	nextH := 1
	// the state history is appended by the mutating task right after its call returns; with cooperative
	// scheduling and no yield inside the mutators, that is the instant the mutation took effect
	states := []c17State{{seq: 0, routes: map[string]int{}, def: 0}}
	cur := func() c17State { return states[len(states)-1] }
	var dispatches []*c17Dispatch
	byMsg := map[*pool.Message]*c17Dispatch{}

	r.Use(func(next mux.Handler) mux.Handler {
		return mux.HandlerFunc(func(w mux.ResponseWriter, m *mux.Message) {
			if d := byMsg[m.Message]; d != nil {
				d.invoked = append(d.invoked, "m1")
			}
			next.ServeCOAP(w, m)
		})
	}, func(next mux.Handler) mux.Handler {
		return mux.HandlerFunc(func(w mux.ResponseWriter, m *mux.Message) {
			if d := byMsg[m.Message]; d != nil {
				d.invoked = append(d.invoked, "m2")
			}
			next.ServeCOAP(w, m)
		})
	})
	mkHandler := func(id int) mux.Handler {
		return mux.HandlerFunc(func(_ mux.ResponseWriter, m *mux.Message) {
			active := byMsg[m.Message]
			if active != nil {
				active.invoked = append(active.invoked, fmt.Sprintf("h%d", id))
				active.handler = id
				active.vars = map[string]string{}
				if m.RouteParams != nil {
					for k, v := range m.RouteParams.Vars {
						active.vars[k] = v
					}
				}
			}
		})
	}
	// initial default handler (id 0) replaces the built-in one so that it is observable
	handlerOwner[0] = ""
	r.DefaultHandle(mkHandler(0))

	type op struct {
		kind int // 0 serve, 1 handle, 2 remove, 3 default
		pat  int
		path int
	}
	plans := make([][]op, nTasks)
	for ti := range plans {
		n := 1 + t.Choose(4)
		for i := 0; i < n; i++ {
			plans[ti] = append(plans[ti], op{kind: t.Weighted(4, 3, 1, 1), pat: t.Choose(nPat), path: t.Choose(len(paths))})
		}
	}
	copyRoutes := func(m map[string]int) map[string]int {
		c := map[string]int{}
		for k, v := range m {
			c[k] = v
		}
		return c
	}
	viaGlue := t.Chance(1, 2)
	glue := mux.ToHandler[*udpClient.Conn](r)
	if viaGlue {
		e.Probe("dispatch.throughToHandler")
	}
	runOp := func(ti int, o op) {
		switch o.kind {
		case 1:
			id := nextH
			nextH++
			handlerOwner[id] = pats[o.pat].text
			// the mutators run from their call to their unlock without a scheduling point, so the mutation takes
			// effect at the call (the build-time yield after the unlock comes later): record the state first
			s := cur()
			ns := c17State{seq: tick(), routes: copyRoutes(s.routes), def: s.def}
			ns.routes[pats[o.pat].text] = id
			states = append(states, ns)
			if err := r.Handle(pats[o.pat].text, mkHandler(id)); err != nil {
				e.Violate("C17.R0", "handle-refused-valid-pattern", "Handle(%q) failed: %v", pats[o.pat].text, err)
				return
			}
			e.Notef("task %d Handle(%q) -> h%d", ti, pats[o.pat].text, id)
		case 2:
			s := cur()
			ns := c17State{seq: tick(), routes: copyRoutes(s.routes), def: s.def}
			delete(ns.routes, pats[o.pat].text)
			states = append(states, ns)
			_ = r.HandleRemove(pats[o.pat].text)
			e.Notef("task %d HandleRemove(%q)", ti, pats[o.pat].text)
		case 3:
			id := nextH
			nextH++
			handlerOwner[id] = ""
			s := cur()
			states = append(states, c17State{seq: tick(), routes: copyRoutes(s.routes), def: id})
			r.DefaultHandle(mkHandler(id))
			e.Notef("task %d DefaultHandle -> h%d", ti, id)
		default:
			path := paths[o.path]
			msg := pool.NewMessage(context.Background())
			if path != "" {
				_ = msg.SetPath(path)
			}
			d := &c17Dispatch{task: ti, path: path, call: tick(), handler: -1}
			byMsg[msg] = d
			if viaGlue {
				// the way options.WithMux plugs a router into a connection
				glue(responsewriter.New(pool.NewMessage(context.Background()), (*udpClient.Conn)(nil)), msg)
			} else {
				r.ServeCOAP(c17RW{}, &mux.Message{Message: msg, RouteParams: new(mux.RouteParams)})
			}
			d.ret = tick()
			if d.handler >= 0 {
				d.pattern = handlerOwner[d.handler]
			}
			dispatches = append(dispatches, d)
			e.Notef("task %d ServeCOAP(%q) -> %v", ti, path, d.invoked)
		}
	}
	for ti := 0; ti < nTasks; ti++ {
		ti := ti
		go func() {
			for _, o := range plans[ti] {
				e.yieldHook("task.op", uint64(ti))
				runOp(ti, o)
			}
		}()
		e.Wait()
	}
	for e.Budget() {
		pk := e.Parked()
		if len(pk) == 0 {
			break
		}
		p := pk[e.Tape.Choose(len(pk))]
		for _, q := range pk {
			if q != p && q.Site != "task.op" {
				e.NonTrivial()
				e.Probe("dispatch.overlapsAnotherOperation")
			}
		}
		e.Logf("resume %s#%d", p.Site, p.Hit)
		e.Resume(p)
		e.Wait()
	}

	// ---- oracle
	for _, d := range dispatches {
		// R6 / R5: exactly one handler, wrapped by the middlewares in registration order
		hs := 0
		for _, x := range d.invoked {
			if strings.HasPrefix(x, "h") {
				hs++
			}
		}
		if hs != 1 {
			e.Violate("C17.R6", "not-exactly-one-handler", "dispatch of %q invoked %d handlers: %v", d.path, hs, d.invoked)
			continue
		}
		if len(d.invoked) != 3 || d.invoked[0] != "m1" || d.invoked[1] != "m2" {
			e.Violate("C17.R5", "middleware-order", "dispatch of %q ran %v, expected m1, m2, handler", d.path, d.invoked)
		}
		// candidate states: the one in force at the call, plus every state created during the call
		var cands []c17State
		for i, s := range states {
			if s.seq <= d.call && (i+1 == len(states) || states[i+1].seq > d.call) {
				cands = append(cands, s)
			}
			if s.seq > d.call && s.seq < d.ret {
				cands = append(cands, s)
			}
		}
		// R1: a registered handler's pattern must match the entire path - whatever the timing
		if d.pattern != "" {
			ok, vars := c17Match(patByText[d.pattern], d.path)
			if !ok {
				e.Violate("C17.R1", "dispatched-to-non-matching-pattern", "path %q was dispatched to the handler of pattern %q, which does not match it", d.path, d.pattern)
				continue
			}
			// R4
			if len(vars) != len(d.vars) {
				e.Violate("C17.R4", "route-variables-differ", "path %q pattern %q: handler saw variables %v, reference matcher %v", d.path, d.pattern, d.vars, vars)
			} else {
				for k, v := range vars {
					if d.vars[k] != v {
						e.Violate("C17.R4", "route-variables-differ", "path %q pattern %q: handler saw variables %v, reference matcher %v", d.path, d.pattern, d.vars, vars)
						break
					}
				}
			}
		}
		if d.pattern == "" && d.handler >= 0 && len(d.vars) != 0 {
			e.Violate("C17.R4", "route-variables-differ:default-handler", "path %q went to the default handler with route variables %v (nothing matched, so there are none)", d.path, d.vars)
		}
		consistent := false
		staleDefault := false
		multi := false
		for _, s := range cands {
			best := 0
			var matching []string
			for pt := range s.routes {
				if ok, _ := c17Match(patByText[pt], d.path); ok {
					matching = append(matching, pt)
					if len(pt) > best {
						best = len(pt)
					}
				}
			}
			if len(matching) > 1 {
				multi = true
			}
			if d.pattern == "" {
				// "the default handler exactly when nothing matches": in one of the router's states during the call nothing
				// matched the path AND the handler that ran was that state's default handler
				if len(matching) == 0 && s.def == d.handler {
					consistent = true
				}
				if len(matching) == 0 && s.def != d.handler {
					staleDefault = true
				}
			} else if id, ok := s.routes[d.pattern]; ok && len(d.pattern) == best && (id == d.handler || len(cands) > 1) {
				consistent = true
			}
		}
		if multi {
			e.NonTrivial()
			e.Probe("path.matchedSeveralPatterns")
		}
		if !consistent {
			var desc []string
			for _, s := range cands {
				var ks []string
				for k := range s.routes {
					ks = append(ks, k)
				}
				sort.Strings(ks)
				desc = append(desc, "{"+strings.Join(ks, " ")+"}")
			}
			rule, sig := "C17.R2", "not-a-longest-matching-route"
			if d.pattern == "" {
				rule, sig = "C17.R3", "default-although-a-route-matches"
				if staleDefault {
					sig = "default-handler-of-another-moment"
				}
			}
			if len(cands) > 1 {
				sig += ":concurrent"
			}
			e.Violate(rule, sig, "path %q dispatched to pattern %q (handler h%d); route sets during the call: %s", d.path, d.pattern, d.handler, strings.Join(desc, " "))
		}
	}
}
