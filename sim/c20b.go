package sim

import (
	"bytes"
	"fmt"
	"io"

	"github.com/plgd-dev/go-coap/v3/message"
	"github.com/plgd-dev/go-coap/v3/message/codes"
	"github.com/plgd-dev/go-coap/v3/message/pool"
	"github.com/plgd-dev/go-coap/v3/mux"
	"github.com/plgd-dev/go-coap/v3/net/responsewriter"
	"github.com/plgd-dev/go-coap/v3/options"
	"github.com/plgd-dev/go-coap/v3/tcp"
	udpClient "github.com/plgd-dev/go-coap/v3/udp/client"
)

// S-NORESP/blockwise: responses the library itself produces for a request carrying No-Response, and responses a
// handler sets for a request that arrived in blocks. "A suppressed response is never put on the wire" does not
// depend on who built the response.
//
//	variant 0: the final block of an upload nobody started (block 0 lost, transfer expired, ...): the block-wise
//	           layer answers 4.08 on its own - class 4
//	variant 2: a download in blocks: the first request carries no option and gets block 0; the request for block 1
//	           carries No-Response - the block is a 2.05 that answers it
//	variant 1: a two-block upload, No-Response on both blocks; the handler answers the assembled request with
//	           2.04 / 4.00 / 5.00 through SetResponse
//
// The 2.31 that asks for the next block is not judged either way (without it the upload could not proceed; whether
// RFC 7967 means it is a matter of reading).
func c20BlockwiseRun(e *Env) {
	t := e.Tape
	kind := t.Choose(4) // 0 UDP CON, 1 UDP NON, 2 DTLS CON, 3 TCP
	v := uint32(t.Choose(256))
	variant := t.Choose(3)
	hcode := []byte{0x44, 0x80, 0xa0}[t.Choose(3)]
	tr := []string{TrUDP, TrUDP, TrDTLS, TrTCP}[kind]
	reqType := TCON
	if kind == 1 {
		reqType = TNON
	}
	if v&(2|8|16) != 0 {
		e.NonTrivial()
	}
	var handlerRuns, refusals int
	var gotBody []byte
	big := bytes.Repeat([]byte("0123456789"), 4)
	handle := func(body io.ReadSeeker, set func(c codes.Code) error, setBig func() error) {
		var b []byte
		if body != nil {
			b, _ = io.ReadAll(body)
		}
		if variant == 2 {
			err := setBig()
			e.mu.Lock()
			handlerRuns++
			if err != nil {
				refusals++
			}
			e.mu.Unlock()
			return
		}
		err := set(codes.Code(hcode))
		e.mu.Lock()
		handlerRuns++
		gotBody = b
		if err != nil {
			refusals++
		}
		e.mu.Unlock()
		e.Notef("handler: body of %d bytes, SetResponse(%d.%02d) -> refused=%v", len(b), hcode>>5, hcode&31, err != nil)
	}
	token := []byte{0x35, 0x46}
	var w *CWorld
	if IsDatagram(tr) {
		cfg := SimUDPConfig(1000)
		cfg.BlockwiseEnable = true
		cfg.Handler = func(rw *responsewriter.ResponseWriter[*udpClient.Conn], r *pool.Message) {
			handle(r.Body(), func(c codes.Code) error { return rw.SetResponse(c, message.TextPlain, bytes.NewReader([]byte("done"))) },
				func() error { return rw.SetResponse(codes.Content, message.TextPlain, bytes.NewReader(big)) })
		}
		w = NewCWorld(e, CWorldCfg{Transport: tr, UDP: cfg})
	} else {
		r := mux.NewRouter()
		r.DefaultHandle(mux.HandlerFunc(func(rw mux.ResponseWriter, r *mux.Message) {
			handle(r.Body(), func(c codes.Code) error { return rw.SetResponse(c, message.TextPlain, bytes.NewReader([]byte("done"))) },
				func() error { return rw.SetResponse(codes.Content, message.TextPlain, bytes.NewReader(big)) })
		}))
		w = NewCWorld(e, CWorldCfg{Transport: tr, TCPOpts: []tcp.Option{options.WithMux(r), options.WithCloseSocket(), options.WithBlockwise(true, 0, 0)}})
	}
	if w == nil {
		return
	}
	e.Real("net/responsewriter", "message/noresponse", "net/blockwise")
	e.Wait()
	if !IsDatagram(tr) {
		it := w.Queue(&WMsg{Code: 0xe1, Token: []byte{1}, Opts: []WOpt{{Num: OptTCPBlockWise}}}, "csm")
		w.Emit(it, false)
		e.Wait()
	}
	w.Pump()
	e.Logf("case transport=%s type=%d no-response=%d variant=%d handler-code=%d.%02d", tr, reqType, v, variant, hcode>>5, hcode&31)

	var wire []*WMsg
	w.OnRecv = func(m *WMsg) {
		if !IsDatagram(tr) && m.Code == 0xe1 && !bytes.Equal(m.Token, token) {
			return // the endpoint's own CSM
		}
		wire = append(wire, m)
		if IsDatagram(tr) && m.Type == TCON {
			w.Queue(&WMsg{Type: TACK, Code: 0, MID: m.MID}, "ack-of-response")
		}
	}
	send := func(m *WMsg, label string) {
		it := w.Queue(m, label)
		w.Emit(it, false)
		e.Wait()
		w.Pump()
		w.prune()
		for _, x := range append([]*OutItem(nil), w.Outbox...) {
			w.Emit(x, false)
			e.Wait()
			w.Pump()
		}
		w.prune()
	}
	block := func(mid uint16, num uint32, more bool, pl []byte) *WMsg {
		return &WMsg{Type: reqType, Code: 2, MID: mid, Token: token, Payload: pl, Opts: []WOpt{
			{Num: OptURIPath, Val: []byte("x")},
			UintOpt(OptBlock1, BlockOpt(num, more, 0)),
			UintOpt(OptNoResponse, v),
		}}
	}
	// what the last request of the exchange is, and the class of the response that belongs to it
	var lastMID uint16
	var class byte
	var what string
	if variant == 2 {
		lastMID, class, what = 7778, 2, "block 1 of the response (2.05), served by the block-wise layer"
		get := func(mid uint16, opts ...WOpt) *WMsg {
			return &WMsg{Type: reqType, Code: 1, MID: mid, Token: token, Opts: append([]WOpt{{Num: OptURIPath, Val: []byte("big")}}, opts...)}
		}
		send(get(7777, UintOpt(OptBlock2, BlockOpt(0, false, 0))), "get (block 0, no option)")
		n0 := 0
		for _, m := range wire {
			if bytes.Equal(m.Token, token) && m.Code == 0x45 {
				n0++
			}
		}
		if n0 != 1 {
			e.Violate("C20.R3", "response-count:class2:blockwise-download-first-block", "the request without No-Response got %d responses: %v", n0, wire)
			return
		}
		wire = nil
		send(get(7778, UintOpt(OptBlock2, BlockOpt(1, false, 0)), UintOpt(OptNoResponse, v)), "get (block 1, No-Response)")
	} else if variant == 0 {
		lastMID, class, what = 7777, 4, "the block-wise layer's answer to a final block without a transfer"
		send(block(7777, 1, false, []byte("tail!")), "lone-final-block")
	} else {
		lastMID, class, what = 7778, hcode>>5, fmt.Sprintf("the handler's %d.%02d for the assembled upload", hcode>>5, hcode&31)
		send(block(7777, 0, true, bytes.Repeat([]byte{'a'}, 16)), "block-0")
		send(block(7778, 1, false, []byte("tail!")), "block-1")
	}
	suppressed := (class == 2 && v&2 != 0) || (class == 4 && v&8 != 0) || (class == 5 && v&16 != 0)
	e.mu.Lock()
	runs, refused, body := handlerRuns, refusals, gotBody
	e.mu.Unlock()
	if variant == 1 {
		if runs != 1 {
			e.Violate("C20.R0", "handler-not-invoked", "two-block upload: the handler ran %d times", runs)
			return
		}
		if len(body) != 21 {
			e.Violate("C20.R0", "handler-not-invoked", "two-block upload: the handler got a body of %d bytes, 21 were sent", len(body))
			return
		}
		if suppressed != (refused == 1) {
			e.Violate("C20.R1", fmt.Sprintf("refusal-differs:class%d:blockwise", class), "No-Response=%d, SetResponse(%d.%02d) for a request that arrived in blocks: refused=%v, RFC 7967 says suppressed=%v", v, hcode>>5, hcode&31, refused == 1, suppressed)
		}
	}
	responses, bareAcks := 0, 0
	for _, m := range wire {
		switch {
		case IsDatagram(tr) && m.Type == TACK && m.Code == 0 && len(m.Token) == 0 && m.MID == lastMID:
			bareAcks++
		case bytes.Equal(m.Token, token) && m.Code != 0x5f: // 2.31 is not judged
			responses++
			if m.Code>>5 != class {
				e.Violate("C20.R3", "response-code-differs:blockwise", "%s is expected, the wire shows %d.%02d", what, m.Code>>5, m.Code&31)
			}
		}
	}
	tag := []string{"incomplete", "upload", "download"}[variant]
	if suppressed {
		e.Probe("blockwise." + tag + ".suppressed")
		if responses != 0 {
			e.Violate("C20.R2", fmt.Sprintf("suppressed-response-on-wire:class%d:blockwise-%s", class, tag), "No-Response=%d marks class %d.xx as not of interest, but %s was put on the wire: %v", v, class, what, wire)
		}
		if IsDatagram(tr) && reqType == TCON && bareAcks != 1 {
			e.Violate("C20.R2", "confirmable-request-not-acknowledged:blockwise-"+tag, "the confirmable block (MID %d) got %d bare acknowledgements: %v", lastMID, bareAcks, wire)
		}
	} else {
		e.Probe("blockwise." + tag + map[int]string{0: ".sent", 1: ".answered", 2: ".answered"}[variant])
		if responses != 1 {
			e.Violate("C20.R3", fmt.Sprintf("response-count:class%d:blockwise-%s", class, tag), "No-Response=%d does not suppress class %d.xx: %s appeared %d times on the wire: %v", v, class, what, responses, wire)
		}
	}
}
