package sim

import (
	"context"
	"fmt"
	"time"

	"github.com/plgd-dev/go-coap/v3/message/pool"
)

// C13, exchanges that end without the caller's doing: the peer rejects the request with a Reset, or stays silent until
// the housekeeping has sent every copy and gives the message up (it removes the message-ID continuation, releases the
// copy it kept and reports the failure). Both are outcomes the statement lists; from then on the exchange is over -
// nothing will ever be sent or matched for it - and the connection must hold nothing for it, whether or not the
// request's context has a deadline. Default limits (one request at a time): what an ended exchange keeps, the next
// request waits for.
func c13EndedRun(e *Env) {
	t := e.Tape
	tr := []string{TrUDP, TrDTLS}[t.Choose(2)]
	byReset := t.Chance(1, 2)
	kind := t.Choose(3) // 0 get, 1 observe registration, 2 confirmable one-way write
	// third way: the response starts to arrive in blocks and the peer goes away; the housekeeping drops the transfer
	// when the block-wise transfer timeout has passed - later blocks would be refused
	byTransferTimeout := t.Chance(1, 4)
	ackTO := 2 * time.Second
	maxRetx := uint32(1 + t.Choose(2))
	cfg := SimUDPConfig(int32(t.Choose(60000)))
	cfg.TransmissionNStart = 1
	cfg.TransmissionAcknowledgeTimeout = ackTO
	cfg.TransmissionMaxRetransmit = maxRetx
	cfg.BlockwiseEnable = t.Chance(1, 2)
	cfg.BlockwiseTransferTimeout = 5 * time.Second
	if byTransferTimeout {
		cfg.BlockwiseEnable, kind, byReset = true, 0, false
	}
	cfg.LimitClientParallelRequests = 1
	cfg.LimitClientEndpointParallelRequests = 1
	w := NewCWorld(e, CWorldCfg{Transport: tr, UDP: cfg})
	if w == nil {
		return
	}
	e.Wait()
	w.Pump()
	var first *WMsg
	copies := 0
	var second *WMsg
	w.OnRecv = func(m *WMsg) {
		if m.Type != TCON || m.Code == 0 {
			return
		}
		switch {
		case first == nil:
			first = m
			copies = 1
		case m.MID == first.MID:
			copies++
		case second == nil:
			second = m
			w.Queue(&WMsg{Type: TACK, Code: 0x45, MID: m.MID, Token: m.Token, Payload: []byte("second")}, "answer-second")
		}
	}
	how := map[bool]string{true: "reset", false: "given-up"}[byReset]
	if byTransferTimeout {
		how = "transfer-expired"
	}
	e.Logf("cfg transport=%s kind=%d ends-by=%s maxRetransmit=%d bw=%v", tr, kind, how, maxRetx, cfg.BlockwiseEnable)
	// no deadline: the application relies on the library to tell it when the exchange is over
	a := e.NewCall("first", 950, nil, 0)
	e.Start(a, func(ctx context.Context) (*pool.Message, error) {
		switch kind {
		case 1:
			_, err := w.API.Observe(ctx, "/o", func(*pool.Message) {})
			return nil, err
		case 2:
			m := w.API.AcquireMessage(ctx)
			defer w.API.ReleaseMessage(m)
			if err := m.SetupPost("/w", []byte{0x74, 0x01}, 0, nil); err != nil {
				return nil, err
			}
			return nil, w.API.WriteMessage(m)
		}
		return w.API.Get(ctx, "/a")
	}, w.API.ReleaseMessage)
	e.Wait()
	w.Pump()
	if first == nil {
		return
	}
	t0 := e.Now()
	if byTransferTimeout {
		it := w.Queue(&WMsg{Type: TACK, Code: 0x45, MID: first.MID, Token: first.Token, Payload: []byte("0123456789abcdef"), Opts: []WOpt{UintOpt(OptBlock2, BlockOpt(0, true, 0))}}, "block-0")
		it.NoDup, it.NoDrop = true, true
		first = &WMsg{MID: 0xffff} // (the request for block 1 is not the second request)
		w.OnRecv = func(m *WMsg) {
			if m.Type == TCON && m.Code == 1 && len(m.Opts) > 0 && string(m.Opts[0].Val) == "b" && second == nil {
				second = m
				w.Queue(&WMsg{Type: TACK, Code: 0x45, MID: m.MID, Token: m.Token, Payload: []byte("second")}, "answer-second")
			}
		}
		w.Emit(it, false)
		e.Wait()
		w.Pump()
		for i := 0; i < 8; i++ {
			e.Sleep(time.Second)
			w.Tick(time.Now())
			e.Wait()
			w.Pump()
		}
		e.Probe("ended.byTransferTimeout")
	} else if byReset {
		it := w.Queue(&WMsg{Type: TRST, Code: 0, MID: first.MID}, "reset")
		it.NoDup, it.NoDrop = true, true
		w.Emit(it, false)
		e.Wait()
		w.Pump()
		e.Probe("ended.byReset")
	} else {
		// every copy goes out and stays unanswered; a tick later than (maxRetransmit+1) x ACK_TIMEOUT after the first
		// transmission, with all copies sent, gives the message up
		for e.Now() < t0+time.Duration(maxRetx+1)*ackTO+ackTO && e.Budget() {
			e.Sleep(ackTO / 2)
			w.Tick(time.Now())
			e.Wait()
			w.Pump()
		}
		if copies != int(maxRetx)+1 {
			e.Probe("ended.unexpectedCopyCount")
			return
		}
		e.Probe("ended.byExhaustion")
	}
	e.NonTrivial()
	// one more tick and a moment for whoever has to notice
	e.Sleep(time.Second)
	w.Tick(time.Now())
	e.Wait()
	w.Pump()
	sizes := w.TableSizes()
	held := ""
	for _, k := range []string{"tokenHandlers", "midHandlers", "bwSending", "limiterEndpoints", "limiterWaiters", "observations"} {
		if sizes[k] != 0 {
			held += fmt.Sprintf(" %s=%d", k, sizes[k])
		}
	}
	if byTransferTimeout {
		// one verdict for this way of ending (a known finding is recorded by rule and signature)
		b := e.NewCall("second", 951, nil, 50*time.Second)
		e.Start(b, func(ctx context.Context) (*pool.Message, error) { return w.API.Get(ctx, "/b") }, w.API.ReleaseMessage)
		e.Wait()
		w.Pump()
		if held != "" || second == nil {
			e.Violate("C13.R1", "kept-after-the-exchange-ended:transfer-expired", "the transfer of the response was dropped by the housekeeping when its timeout (5s) had passed; at %v the connection still holds:%s; a second request has been sent: %v", e.Now(), held, second != nil)
		}
		e.CancelCall(a)
		e.Wait()
		for _, it := range append([]*OutItem(nil), w.Outbox...) {
			w.Emit(it, false)
			e.Wait()
			w.Pump()
		}
		return
	}
	rule := map[string]string{"tokenHandlers": "C13.R1", "midHandlers": "C13.R2", "bwSending": "C13.R5", "limiterEndpoints": "C13.R6", "limiterWaiters": "C13.R6", "observations": "C13.R7"}
	for _, k := range []string{"tokenHandlers", "midHandlers", "bwSending", "limiterEndpoints", "limiterWaiters", "observations"} {
		if sizes[k] != 0 {
			e.Violate(rule[k], "kept-after-the-exchange-ended:"+how+":"+k, "the only exchange of the connection ended at %v (%s); at %v the connection still holds:%s", t0, how, e.Now(), held)
			break
		}
	}
	// what the ended exchange keeps, the next request waits for: it must go out at once
	b := e.NewCall("second", 951, nil, 50*time.Second)
	e.Start(b, func(ctx context.Context) (*pool.Message, error) { return w.API.Get(ctx, "/b") }, w.API.ReleaseMessage)
	e.Wait()
	w.Pump()
	if second == nil {
		e.Violate("C13.R6", "next-request-waits-behind-an-ended-exchange:"+how, "the first exchange ended at %v (%s); a second request issued at %v has not been sent", t0, how, e.Now())
	}
	for _, it := range append([]*OutItem(nil), w.Outbox...) {
		w.Emit(it, false)
		e.Wait()
		w.Pump()
	}
	w.prune()
	if !a.Done() {
		e.CancelCall(a)
		e.Wait()
	} else if _, err := a.Result(); err == nil && kind != 2 {
		e.Violate("C13.R1", "ended-exchange-reported-success:"+how, "the exchange ended by %s and the call returned without an error", how)
	}
}
