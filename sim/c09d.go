package sim

import (
	"context"
	"time"

	"github.com/plgd-dev/go-coap/v3/message/pool"
	coapNet "github.com/plgd-dev/go-coap/v3/net"
	"github.com/plgd-dev/go-coap/v3/options"
	udpClient "github.com/plgd-dev/go-coap/v3/udp/client"
	udpServer "github.com/plgd-dev/go-coap/v3/udp/server"
)

// C09, discovery: Server.Discover blocks until its context ends - whatever the responders do (here: nothing), and
// whatever state the server is in: not serving yet, serving, stopped in between, or left by Serve because the listener
// was closed without Stop.

func c09DiscoveryRun(e *Env) {
	t := e.Tape
	mode := t.Choose(5) // 0 serving, 1 Serve not called yet, 2 Stop while discovering, 3 listener closed (Serve returned) before, 4 listener closed while discovering
	dn := NewDNet(e)
	addr := UDPAddr("10.0.0.100", 5683)
	sock := dn.Socket(addr, nil)
	sock.WithCM = true
	l := coapNet.NewVerifUDPConn("udp", sock)
	e.OnCleanup(func() { coapNet.VerifForgetUDPConn(l) })
	dn.ScriptedPeer(UDPAddr("224.0.1.187", 5683), func(*Dgram) {})
	srv := udpServer.New(c10UDPSeam{mid: 9000, tick: func(func(now time.Time) bool) {}}, options.WithErrors(func(error) {}))
	e.OnCleanup(func() { srv.Stop(); _ = l.Close() })
	e.Real("udp/server.Server.Discover / DiscoveryRequest")
	serveRet := false
	if mode != 1 {
		go func() {
			_ = srv.Serve(l)
			e.mu.Lock()
			serveRet = true
			e.mu.Unlock()
		}()
		e.Wait()
	}
	if mode == 3 {
		_ = l.Close()
		e.Wait()
	}
	e.Logf("cfg discovery mode=%s", []string{"serving", "serve-not-called-yet", "stop-while-discovering", "listener-closed-before", "listener-closed-while-discovering"}[mode])
	timeout := []time.Duration{500 * time.Millisecond, 2 * time.Second, 10 * time.Second}[t.Choose(3)]
	ctx, cancel := context.WithTimeout(context.Background(), timeout)
	if mode == 4 {
		// no deadline: the discovery runs until the application ends it - or the connection it runs on is closed
		cancel()
		ctx, cancel = context.WithCancel(context.Background())
	}
	e.OnCleanup(cancel)
	done, started := false, e.Now()
	var doneAt time.Duration
	go func() {
		_ = srv.Discover(ctx, "224.0.1.187:5683", "/oic/res", func(*udpClient.Conn, *pool.Message) {})
		e.mu.Lock()
		done, doneAt = true, e.Now()
		e.mu.Unlock()
	}()
	e.Wait()
	e.NonTrivial()
	e.Probe("discovery.mode." + []string{"serving", "notServingYet", "stopWhile", "listenerClosed", "listenerClosedWhile"}[mode])
	cancelEarly := t.Chance(1, 3) && mode != 4
	if mode == 4 {
		e.Sleep(timeout / 4)
		e.Logf("the application closes the socket the server is serving (no Stop)")
		_ = l.Close()
		e.Wait()
	}
	if mode == 2 {
		e.Sleep(timeout / 4)
		e.Logf("Stop")
		srv.Stop()
		e.Wait()
	}
	if cancelEarly {
		e.Sleep(timeout / 3)
		e.Logf("the caller cancels the discovery")
		cancel()
		e.Wait()
	}
	e.Sleep(timeout + time.Second)
	e.Wait()
	e.mu.Lock()
	d, at := done, doneAt
	_ = serveRet
	e.mu.Unlock()
	if !d {
		e.Violate("C09.R1", "discovery-ignores-its-context:"+[]string{"serving", "server-not-serving-yet", "stop-while-discovering", "serve-has-returned", "connection-closed-while-discovering"}[mode], "Discover (context of %v, cancelled early: %v) has not returned %v after it was started", timeout, cancelEarly, e.Now()-started)
		return
	}
	e.Logf("Discover returned after %v", at-started)
}
