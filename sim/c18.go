package sim

import (
	"fmt"
	"net"
	"syscall"
	"time"

	"github.com/plgd-dev/go-coap/v3/message/pool"
	"github.com/plgd-dev/go-coap/v3/net/responsewriter"
	"github.com/plgd-dev/go-coap/v3/options"
	"github.com/plgd-dev/go-coap/v3/tcp"
	tcpClient "github.com/plgd-dev/go-coap/v3/tcp/client"
	udpClient "github.com/plgd-dev/go-coap/v3/udp/client"
)

// C18 — inactivity and keep-alive monitors close exactly the dead connections.

func init() {
	Register(&PropDef{
		ID:    "C18",
		Title: "Inactivity and keep-alive monitors close exactly the dead connections",
		Rule: "a real connection (UDP, DTLS shim, TCP, TLS shim) guarded by the real inactivity monitor / keep-alive wired through options.WithInactivityMonitor / WithKeepAlive; histories of {message received, pong for the current or a superseded ping, tick at time t} with spacings drawn relative to the period (exactly the period, +-1 ns, several ticks inside one period, late ticks, +300 s jump, stale now); server side: several peers (answering / dead) on one real server with keep-alive; " +
			"non-trivial = at least one tick found the connection inactive; distinct = distinct event-log hash",
		Scenarios: []Scenario{
			{Name: "S-MONITOR/plain", Weight: 1, Run: func(e *Env) { c18Run(e, false) }},
			{Name: "S-MONITOR/keepalive", Weight: 2, Run: func(e *Env) { c18Run(e, true) }},
			{Name: "S-MONITOR/server-keepalive", Weight: 1, Run: c18ServerRun},
		},
		Quick:    250000,
		Thorough: 4000000,
		Require:  []string{"ping.writeFails", "stream.readEndsInsideNextFrame", "handshake.slow", "received.requestWithSlowHandler", "received.peerPing", "received.strayAck", "keepalive.pingSent", "tick.exactlyAtPeriod", "tick.foundInactive", "pong.superseded", "tick.insideThePeriodOfAPing", "received.droppedByRequestMonitor", "tick.overlapsReceivedMessage"},
		Assume: []string{
			"keep-alive counts consecutive inactivity detections since the last reset; a detection is a tick later than one period after the last received message or the last detection (= the last ping), whichever is later: a ping has a period to be answered, whatever the spacing of the housekeeping ticks; the literal 'more than maxRetries pings unanswered' is never satisfied by any implementation that sends maxRetries pings",
			"a pong for a superseded ping is accepted as either a reset or not (it is a received message; the statement does not say which wins)",
			"the model's clock for the tick is the now handed to the tick; handlers return at once",
			"S-MONITOR/server-keepalive: a real udp / dtls / tcp server with WithKeepAlive and 2-4 peers that either answer every ping at once or never: an answering peer is never closed, a dead one is closed after at least maxRetries pings of its own went unanswered and at the latest maxRetries+2 late ticks after the script ends",
		},
	})
}

func c18Run(e *Env, keepalive bool) {
	t := e.Tape
	tr := PickTransport(t)
	period := []time.Duration{4 * time.Second, time.Second, 16 * time.Second}[t.Choose(3)]
	maxRetries := []uint32{1, 2, 3, 0}[t.Choose(4)] // 0: given up at the first period without a message, no ping at all
	closedBy := 0
	// the application filters what it receives (WithRequestMonitor: rate limiting, access control): a message it drops
	// has been received from the peer all the same
	filtering := t.Chance(1, 4)
	isFiltered := func(r *pool.Message) bool {
		p, err := r.Options().Path()
		return err == nil && p == "/filtered"
	}
	var w *CWorld
	if IsDatagram(tr) {
		cfg := SimUDPConfig(2000)
		cfg.TransmissionMaxRetransmit = 2
		cfg.TransmissionAcknowledgeTimeout = 100 * time.Second // keep ping retransmissions out of the picture
		cfg.Handler = func(_ *responsewriter.ResponseWriter[*udpClient.Conn], r *pool.Message) {
			// the peer's last sign of life is the arrival of its message, not the moment the application is done with it
			if p, err := r.Options().Path(); err == nil && p == "/slow" {
				time.Sleep(period / 2)
			}
		}
		onInactive := func(cc *udpClient.Conn) {
			e.mu.Lock()
			closedBy++
			e.mu.Unlock()
			e.Notef("monitor closes the connection")
			_ = cc.Close()
		}
		if keepalive {
			options.WithKeepAlive(maxRetries, period*time.Duration(maxRetries+1), onInactive).UDPClientApply(&cfg)
		} else {
			options.WithInactivityMonitor(period, onInactive).UDPClientApply(&cfg)
		}
		w = NewCWorld(e, CWorldCfg{Transport: tr, UDP: cfg, Monitor: cfg.CreateInactivityMonitor(), UDPMod: func(u *UDPEndpointCfg) {
			if filtering {
				u.ReqMonitor = func(_ *udpClient.Conn, r *pool.Message) (bool, error) { return isFiltered(r), nil }
			}
		}})
	} else {
		onInactive := func(cc *tcpClient.Conn) {
			e.mu.Lock()
			closedBy++
			e.mu.Unlock()
			e.Notef("monitor closes the connection")
			_ = cc.Close()
		}
		var mon tcp.Option
		if keepalive {
			mon = options.WithKeepAlive(maxRetries, period*time.Duration(maxRetries+1), onInactive)
		} else {
			mon = options.WithInactivityMonitor(period, onInactive)
		}
		slowHandler := options.WithHandlerFunc(func(_ *responsewriter.ResponseWriter[*tcpClient.Conn], r *pool.Message) {
			if p, err := r.Options().Path(); err == nil && p == "/slow" {
				time.Sleep(period / 2)
			}
		})
		filtering = false // (a stream client has no option for a request monitor; the servers of S-MONITOR/server-keepalive have)
		w = NewCWorld(e, CWorldCfg{Transport: tr, TCPOpts: []tcp.Option{mon, slowHandler, options.WithCloseSocket()}})
	}
	if w == nil {
		return
	}
	e.Real("net/monitor/inactivity.Monitor", "net/monitor/inactivity.KeepAlive", "options.WithKeepAlive / WithInactivityMonitor wiring")
	e.Wait()
	w.Pump()
	e.Logf("cfg transport=%s keepalive=%v period=%v maxRetries=%d", tr, keepalive, period, maxRetries)

	// reference model (A.7)
	lastRx := e.Now() // the monitor is armed when it is created
	// keep-alive: a ping is given a period to be answered. The period that is running began with the last received
	// message or with the last detection (= the last ping), whichever is later; housekeeping ticks inside it are not
	// detections, however many there are.
	periodStart := lastRx
	detMin, detMax := 0, 0
	shadow := 0 // detections counted as if only a matching pong reset them (used for the signature only, never for the verdict)
	type ping struct {
		mid   uint16
		token []byte
	}
	var pings []ping
	newPings := 0
	w.OnRecv = func(m *WMsg) {
		if IsDatagram(tr) {
			if m.Type == TCON && m.Code == 0 {
				for _, p := range pings {
					if p.mid == m.MID {
						return // retransmitted copy
					}
				}
				pings = append(pings, ping{mid: m.MID})
				newPings++
			}
			return
		}
		if m.Code == 0xe2 {
			pings = append(pings, ping{token: m.Token})
			newPings++
		}
	}
	closed := func() bool { return w.API.Context().Err() != nil }
	slowPending, sinceAdvance := false, 0
	overlaps := 0
	nonce := 0
	pongForCurrent := false
	var streamTail []byte // stream transports: the rest of a frame whose head arrived with the previous read
	deliver := func(m *WMsg, label string, reset int) {
		// reset: 0 = no effect on the count (n/a), 1 = resets, 2 = either
		it := w.Queue(m, label)
		if !IsDatagram(tr) {
			// the read may end in the middle of the next frame: the complete message in it still is a received message
			raw := append(append([]byte(nil), streamTail...), EncodeTCP(m)...)
			streamTail = nil
			if t.Chance(1, 3) {
				next := EncodeTCP(&WMsg{Code: 1, Token: []byte{0x57, byte(len(label))}, Opts: []WOpt{{Num: OptURIPath, Val: []byte("tail")}}})
				k := 1 + t.Choose(len(next)-1)
				raw = append(raw, next[:k]...)
				streamTail = next[k:]
				e.Probe("stream.readEndsInsideNextFrame")
			}
			it.Raw = raw
		}
		e.Logf("peer->ep %s", label)
		sinceAdvance++
		w.Emit(it, false)
		lastRx = e.Now()
		periodStart = lastRx
		switch reset {
		case 1:
			detMin, detMax = 0, 0
		case 2:
			detMin = 0
		}
		if pongForCurrent {
			shadow = 0
		}
	}

	for step := 0; step < 60 && e.Budget() && !closed(); step++ {
		var evs []Event
		// a message is received (while a slow handler occupies the reader, no more messages than the receive queue takes:
		// a message the library has not read from the socket yet is not a received message, and the model could not
		// know when it will be)
		if !slowPending || sinceAdvance < 10 {
			evs = append(evs, Event{Label: "message", W: 3, Do: func() {
				nonce++
				e.Fault("msg.received")
				m := &WMsg{Type: TNON, Code: 1, MID: w.NextPeerMID(), Token: []byte{0x55, byte(nonce)}, Opts: []WOpt{{Num: OptURIPath, Val: []byte("m")}}}
				label := fmt.Sprintf("message #%d", nonce)
				// whatever the peer sends is a sign of life: a request, a ping of its own, a stray acknowledgement or reset
				switch t.Weighted(4, 2, 1, 1, 2) {
				case 0:
					if filtering && t.Chance(1, 2) {
						e.Probe("received.droppedByRequestMonitor")
						m.Opts = []WOpt{{Num: OptURIPath, Val: []byte("filtered")}}
						label = fmt.Sprintf("message #%d (the application's request monitor drops it)", nonce)
					}
				case 4:
					if !slowPending { // (one at a time: the next time advance of at least half a period lets it finish)
						slowPending = true
						e.Probe("received.requestWithSlowHandler")
						m.Opts = []WOpt{{Num: OptURIPath, Val: []byte("slow")}}
						label = fmt.Sprintf("message #%d (its handler takes half a period)", nonce)
					}
				case 1:
					e.Probe("received.peerPing")
					if IsDatagram(tr) {
						m, label = &WMsg{Type: TCON, Code: 0, MID: w.NextPeerMID()}, fmt.Sprintf("ping of the peer #%d", nonce)
					} else {
						m, label = &WMsg{Code: 0xe2, Token: []byte{0x56, byte(nonce)}}, fmt.Sprintf("ping of the peer #%d", nonce)
					}
				case 2:
					if IsDatagram(tr) {
						e.Probe("received.strayAck")
						m, label = &WMsg{Type: TACK, Code: 0, MID: w.NextPeerMID()}, fmt.Sprintf("stray empty acknowledgement #%d", nonce)
					}
				case 3:
					if IsDatagram(tr) {
						e.Probe("received.strayReset")
						m, label = &WMsg{Type: TRST, Code: 0, MID: w.NextPeerMID()}, fmt.Sprintf("stray reset #%d", nonce)
					}
				}
				deliver(m, label, 1)
			}})
		}
		if keepalive && len(pings) > 0 && (!slowPending || sinceAdvance < 10) {
			evs = append(evs, Event{Label: "pong", W: 3, Do: func() {
				p := pings[len(pings)-1]
				e.Fault("pong.current")
				pongForCurrent = true
				defer func() { pongForCurrent = false }()
				if IsDatagram(tr) {
					deliver(&WMsg{Type: TRST, Code: 0, MID: p.mid}, fmt.Sprintf("pong for the current ping mid=%d", p.mid), 1)
				} else {
					deliver(&WMsg{Code: 0xe3, Token: p.token}, fmt.Sprintf("pong for the current ping tok=%x", p.token), 1)
				}
			}})
			if len(pings) > 1 {
				evs = append(evs, Event{Label: "latepong", W: 2, Do: func() {
					p := pings[t.Choose(len(pings)-1)]
					e.Fault("pong.superseded")
					e.Probe("pong.superseded")
					if IsDatagram(tr) {
						deliver(&WMsg{Type: TRST, Code: 0, MID: p.mid}, fmt.Sprintf("late pong for a superseded ping mid=%d", p.mid), 2)
					} else {
						deliver(&WMsg{Code: 0xe3, Token: p.token}, fmt.Sprintf("late pong for a superseded ping tok=%x", p.token), 2)
					}
				}})
			}
		}
		// tick at time t
		evs = append(evs, Event{Label: "tick", W: 6, Do: func() {
			left := periodStart + period - e.Now() // time until the connection counts as inactive (again)
			var dt time.Duration
			switch t.Weighted(3, 2, 2, 2, 2, 1, 1) {
			case 0:
				dt = period / 4
			case 1:
				dt = left // tick exactly at last receive + period: not yet inactive
			case 2:
				dt = left + time.Nanosecond
			case 3:
				dt = left - time.Nanosecond
			case 4:
				dt = period + time.Millisecond
			case 5:
				dt = 300 * time.Second
			default:
				dt = 5*period + time.Second
			}
			if dt < 0 {
				dt = 0
			}
			if dt >= period/2 {
				slowPending, sinceAdvance = false, 0
			}
			e.Sleep(dt)
			now := time.Now()
			stale := time.Duration(0)
			if t.Chance(1, 8) {
				stale = []time.Duration{time.Nanosecond, period / 2, period}[t.Choose(3)]
				e.Fault("tick.staleNow")
			}
			tickNow := e.Now() - stale
			inactive := tickNow > periodStart+period
			e.Fault("tick")
			if tickNow > lastRx+period && !inactive {
				e.Probe("tick.insideThePeriodOfAPing")
			}
			if tickNow == periodStart+period {
				e.Probe("tick.exactlyAtPeriod")
			}
			expectClose, mayClose, expectPing := false, false, false
			if inactive {
				e.NonTrivial()
				e.Probe("tick.foundInactive")
				if keepalive {
					periodStart = tickNow
					detMin++
					detMax++
					shadow++
					expectClose = detMin > int(maxRetries)
					mayClose = detMax > int(maxRetries)
					expectPing = !mayClose
				} else {
					expectClose, mayClose = true, true
				}
			}
			// a transient send error (ENOBUFS, EPERM from a firewall rule being reloaded ...) hits the ping of this tick:
			// a ping that could not be sent is an unanswered ping, nothing more
			pingWriteFails := keepalive && expectPing && IsDatagram(tr) && t.Chance(1, 6)
			if pingWriteFails {
				e.Fault("ping.writeFails")
				if w.U != nil {
					w.U.N.WriteErr = func(src, dst *net.UDPAddr) error { return &net.OpError{Op: "write", Net: "udp", Err: syscall.ENOBUFS} }
				} else {
					w.PC.WriteErr = &net.OpError{Op: "write", Net: "udp", Err: syscall.ENOBUFS}
				}
			}
			e.Logf("advance %v, tick(now-%v): inactive=%v detections=%d..%d expectClose=%v mayClose=%v ping-write-fails=%v", dt, stale, inactive, detMin, detMax, expectClose, mayClose, pingWriteFails)
			newPings = 0
			w.Tick(now.Add(-stale))
			e.Wait()
			if pingWriteFails {
				if w.U != nil {
					w.U.N.WriteErr = nil
				} else {
					w.PC.WriteErr = nil
				}
				expectPing = false // nothing reached the wire
			}
			w.Pump()
			switch {
			case closed() && !mayClose:
				rule, sig := "C18.R1", "closed-without-a-full-idle-period"
				if keepalive && !inactive && tickNow > lastRx+period {
					rule, sig = "C18.R3", "keepalive-closed-before-retries-exhausted:ticks-counted-as-periods"
				}
				if keepalive && inactive {
					rule, sig = "C18.R3", "keepalive-closed-before-retries-exhausted"
					if shadow > int(maxRetries) {
						// explained by a counter that only a matching pong resets
						rule, sig = "C18.R4", "count-not-reset-by-received-message"
					}
				}
				e.Violate(rule, sig, "the monitor closed the connection at a tick with now=%v, last receive %v, period %v, consecutive detections %d..%d, maxRetries %d", tickNow, lastRx, period, detMin, detMax, maxRetries)
			case !closed() && expectClose:
				rule, sig := "C18.R2", "not-closed-at-first-tick-after-idle-period"
				if keepalive {
					sig = "keepalive-not-closed-after-retries-exhausted"
				}
				e.Violate(rule, sig, "tick with now=%v > last receive %v + period %v (detections %d, maxRetries %d) did not close the connection", tickNow, lastRx, period, detMin, maxRetries)
			}
			if keepalive && !closed() {
				if expectPing && newPings != 1 {
					e.Violate("C18.R3", "no-ping-on-detection", "inactivity detection #%d (maxRetries %d) produced %d new pings, expected 1", detMin, maxRetries, newPings)
				}
				if !inactive && newPings != 0 {
					e.Violate("C18.R1", "ping-without-idle-period", "a ping was sent at a tick although a message was received within the period")
				}
			}
		}})
		if keepalive && !slowPending && detMax < int(maxRetries) && overlaps < 2 {
			// a message arrives while a tick is between "a period has passed" and counting it: whichever of the two is
			// taken to come first, the count is zero afterwards - the message resets it
			evs = append(evs, Event{Label: "tick-overlaps-message", W: 2, Do: func() {
				overlaps++
				dt := periodStart + period - e.Now() + time.Millisecond
				if dt < 0 {
					dt = time.Millisecond
				}
				e.Sleep(dt)
				e.Fault("tick")
				e.EnablePark("keepalive.check.beforeCount", e.SiteHits("keepalive.check.beforeCount"))
				newPings = 0
				tickNow := e.Now()
				w.Tick(time.Now())
				e.Wait()
				w.Pump()
				var held *parkedG
				for _, pg := range e.Parked() {
					if pg.Site == "keepalive.check.beforeCount" {
						held = pg
					}
				}
				e.Logf("tick at %v stopped after it decided that a period has passed: %v", tickNow, held != nil)
				nonce++
				m := &WMsg{Type: TNON, Code: 1, MID: w.NextPeerMID(), Token: []byte{0x58, byte(nonce)}, Opts: []WOpt{{Num: OptURIPath, Val: []byte("m")}}}
				deliver(m, fmt.Sprintf("message #%d (while the tick is under way)", nonce), 1)
				e.Wait()
				w.Pump()
				if held != nil {
					e.NonTrivial()
					e.Probe("tick.overlapsReceivedMessage")
					e.Resume(held)
					e.Wait()
					w.Pump()
				}
				// tick first (a detection, reset by the message) or message first (no detection): zero either way
				detMin, detMax, shadow = 0, 0, 0
				if closed() {
					e.Violate("C18.R3", "keepalive-closed-before-retries-exhausted", "a tick and a received message overlapped with at most %d detections before; the connection was closed", maxRetries-1)
				}
			}})
		}
		w.Step(evs)
		if closed() {
			break
		}
	}
	e.mu.Lock()
	n := closedBy
	e.mu.Unlock()
	if n > 1 {
		e.Violate("C18.R1", "closed-twice", "the monitor's on-inactive callback ran %d times", n)
	}
	// the keep-alive's pings are the only operations on this connection: at most the latest ping may still be waiting
	// for its pong - every earlier one was answered, superseded (cancelled) or died with the connection
	if keepalive && !closed() {
		sz := w.TableSizes()
		if out := sz["tokenHandlers"] + sz["midHandlers"]; out > 1 {
			e.Violate("C18.R7", "ping-continuations-accumulate", "%d ping continuations are registered on the connection (token handlers %d, message-ID handlers %d) after %d pings; at most the current ping can be outstanding", out, sz["tokenHandlers"], sz["midHandlers"], len(pings))
		}
	}
}
