package sim

import (
	"bytes"
	"context"
	"fmt"
	"time"

	"github.com/plgd-dev/go-coap/v3/message"
	"github.com/plgd-dev/go-coap/v3/message/codes"
	"github.com/plgd-dev/go-coap/v3/message/pool"
	"github.com/plgd-dev/go-coap/v3/mux"
	"github.com/plgd-dev/go-coap/v3/options"
	"github.com/plgd-dev/go-coap/v3/tcp"
)

// C07, second scenario: the library is the sender as well. Two real stream connections talk to each other through
// the simulated stream; the simulator shuttles the bytes, decodes them with its own codec on the way (so a framing
// mistake is attributed to the writer or to the reader) and cuts them into reads as the tape says. Body sizes sit
// around the three points where the length encoding of a frame changes (13, 269, 65805).

type c07sMsg struct {
	n        int
	upLen    int
	downLen  int
	call     *Call
	started  bool
	handled  int
	upOK     bool
	oneWay   bool
	wireSeen int
}

func c07sLen(t *Tape) int {
	switch t.Weighted(3, 4, 3, 1, 1) {
	case 0:
		return t.Choose(40)
	case 1:
		return 225 + t.Choose(60)
	case 2:
		return 65740 + t.Choose(80)
	case 3:
		return t.Choose(3000)
	default:
		return 60000 + t.Choose(12000)
	}
}

// frameBodyLen returns the declared options+payload length of the frame at the start of b (complete header needed).
func frameBodyLen(b []byte) (int, bool) {
	if len(b) == 0 {
		return 0, false
	}
	switch nib := int(b[0] >> 4); nib {
	case 13:
		if len(b) < 2 {
			return 0, false
		}
		return 13 + int(b[1]), true
	case 14:
		if len(b) < 3 {
			return 0, false
		}
		return 269 + int(b[1])<<8 + int(b[2]), true
	case 15:
		if len(b) < 5 {
			return 0, false
		}
		return 65805 + int(b[1])<<24 + int(b[2])<<16 + int(b[3])<<8 + int(b[4]), true
	default:
		return nib, true
	}
}

func c07SenderRun(e *Env) {
	t := e.Tape
	nMsg := 1 + t.Choose(4)
	cacheSize := []uint16{2048, 1, 7, 64, 4096}[t.Choose(5)]
	msgs := make([]*c07sMsg, nMsg)
	for i := range msgs {
		msgs[i] = &c07sMsg{n: i + 1, upLen: c07sLen(t), downLen: c07sLen(t), oneWay: t.Chance(1, 4)}
	}
	up := func(m *c07sMsg) []byte { return Body(m.n, m.upLen) }
	down := func(m *c07sMsg) []byte { return Body(100+m.n, m.downLen) }

	rB := mux.NewRouter()
	var order []int
	rB.DefaultHandle(mux.HandlerFunc(func(rw mux.ResponseWriter, r *mux.Message) {
		ri := Snapshot(r.Message)
		n := ParseNonce(&WMsg{Opts: ri.Opts})
		e.Notef("B handler n=%d body=%d", n, len(ri.Payload))
		if n < 1 || n > nMsg {
			e.Violate("C07.R1", "message-nobody-sent", "B's handler was given %s, which A never sent", ri)
			return
		}
		m := msgs[n-1]
		e.mu.Lock()
		m.handled++
		m.upOK = bytes.Equal(ri.Payload, up(m)) && ri.Code == byte(codes.POST)
		order = append(order, n)
		e.mu.Unlock()
		if !m.oneWay {
			_ = rw.SetResponse(codes.Content, message.AppOctets, bytes.NewReader(down(m)))
		}
	}))
	rA := mux.NewRouter()
	rA.DefaultHandle(mux.HandlerFunc(func(rw mux.ResponseWriter, r *mux.Message) {
		e.Violate("C07.R1", "message-nobody-sent", "A's handler was given %s; B only ever answers", Snapshot(r.Message))
	}))
	sa, _ := NewStream(e, TCPAddr("10.0.0.1", 40000), TCPAddr("10.0.0.2", 5683))
	sb, _ := NewStream(e, TCPAddr("10.0.0.2", 5683), TCPAddr("10.0.0.1", 40000))
	mk := func(r *mux.Router) []tcp.Option {
		return []tcp.Option{options.WithMux(r), options.WithBlockwise(false, 0, 0), options.WithCloseSocket(), options.WithMaxMessageSize(1 << 20),
			options.WithConnectionCacheSize(cacheSize), options.WithLimitClientParallelRequest(0), options.WithLimitClientEndpointParallelRequest(0)}
	}
	epA, errA := NewTCPEndpoint(e, sa, TCPEndpointCfg{Opts: mk(rA)})
	epB, errB := NewTCPEndpoint(e, sb, TCPEndpointCfg{Opts: mk(rB)})
	if errA != nil || errB != nil {
		e.Violate("HARNESS", "client-setup", "tcp.Client failed: %v %v", errA, errB)
		return
	}
	e.Real("mux.Router (default handler)", "tcp/coder (encoder: the library is the sender)")
	e.Wait()
	e.Logf("cfg msgs=%d cache=%d", nMsg, cacheSize)
	for _, m := range msgs {
		e.Logf("message n=%d up=%d down=%d one-way=%v", m.n, m.upLen, m.downLen, m.oneWay)
	}

	// the wire, seen by the simulator's own decoder
	type dir struct {
		name   string
		from   *SimConn
		to     *SimConn
		tap    []byte
		frames int
	}
	ab := &dir{name: "A->B", from: sa, to: sb}
	ba := &dir{name: "B->A", from: sb, to: sa}
	var wireUp []int // nonces of requests in wire order
	shuttle := func(d *dir) {
		b := d.from.TakeOut()
		if len(b) == 0 {
			return
		}
		d.to.InjectIn(b)
		d.tap = append(d.tap, b...)
		for len(d.tap) > 0 {
			if bl, ok := frameBodyLen(d.tap); ok {
				for _, edge := range []int{13, 269, 65805} {
					if bl >= edge-1 && bl <= edge+1 {
						e.NonTrivial()
						e.Probe(fmt.Sprintf("frame.bodyLen=%d%+d", edge, bl-edge))
					}
				}
			}
			wm, n, err := DecodeTCP(d.tap)
			if err != nil {
				e.Violate("C07.R5", "sender-wrote-undecodable-frame", "%s: the simulator's decoder cannot parse what the library wrote: %v (first bytes % x)", d.name, err, d.tap[:min(len(d.tap), 8)])
				d.tap = nil
				return
			}
			if n == 0 {
				// an incomplete frame at a quiescent point: the library writes a message with one Write
				e.Violate("C07.R5", "sender-wrote-partial-frame", "%s: %d bytes on the wire do not make a whole frame (first bytes % x)", d.name, len(d.tap), d.tap[:min(len(d.tap), 8)])
				d.tap = nil
				return
			}
			d.tap = d.tap[n:]
			d.frames++
			if wm.Code>>5 == 7 {
				continue // signalling
			}
			nn := ParseNonce(wm)
			if d == ab {
				if nn < 1 || nn > nMsg {
					e.Violate("C07.R5", "sender-wrote-foreign-frame", "%s: frame %s was never sent by the application", d.name, wm)
					continue
				}
				m := msgs[nn-1]
				m.wireSeen++
				wireUp = append(wireUp, nn)
				if !bytes.Equal(wm.Payload, up(m)) || wm.Code != byte(codes.POST) {
					e.Violate("C07.R5", "sender-wrote-wrong-frame", "%s: request n=%d on the wire has code %d.%02d and %d payload bytes, the application sent POST with %d", d.name, nn, wm.Code>>5, wm.Code&31, len(wm.Payload), m.upLen)
				}
			}
		}
	}
	closed := func() bool { return epA.CC.Context().Err() != nil || epB.CC.Context().Err() != nil }

	for step := 0; step < 80 && e.Budget(); step++ {
		shuttle(ab)
		shuttle(ba)
		var evs []Event
		for _, m := range msgs {
			m := m
			if m.started {
				continue
			}
			evs = append(evs, Event{Label: "send", W: 4, Do: func() {
				m.started = true
				e.Logf("A sends n=%d", m.n)
				m.call = e.NewCall(fmt.Sprintf("msg%d", m.n), m.n, nil, 1000*time.Second)
				e.Start(m.call, func(ctx context.Context) (*pool.Message, error) {
					if m.oneWay {
						req := epA.CC.AcquireMessage(ctx)
						defer epA.CC.ReleaseMessage(req)
						tok, _ := epA.CC.GetToken()
						if err := req.SetupPost("/s", tok, message.AppOctets, bytes.NewReader(up(m)), QueryOpt(m.n)); err != nil {
							return nil, err
						}
						return nil, epA.CC.WriteMessage(req)
					}
					return epA.CC.Post(ctx, "/s", message.AppOctets, bytes.NewReader(up(m)), QueryOpt(m.n))
				}, epA.CC.ReleaseMessage)
			}})
			break // the application sends in order; how far the stream has got in between is the tape's choice
		}
		for _, d := range []*dir{ab, ba} {
			d := d
			p := d.to.PendingIn()
			if p == 0 {
				continue
			}
			evs = append(evs, Event{Label: "release-all", W: 4, Do: func() {
				e.Logf("%s: %d bytes reach the reader", d.name, p)
				d.to.ReleaseIn(p)
			}})
			evs = append(evs, Event{Label: "release-some", W: 4, Do: func() {
				k := []int{1, 2, 3, 4, 5, 7, 13, 14, 270}[t.Choose(9)]
				if t.Chance(1, 3) && p > 2 {
					k = 1 + t.Choose(p-1)
				}
				if k > p {
					k = p
				}
				e.Fault("stream.segment")
				e.Logf("%s: %d of %d bytes reach the reader", d.name, k, p)
				d.to.ReleaseIn(k)
			}})
		}
		if len(evs) == 0 {
			break
		}
		e.Pick(evs).Do()
		e.Wait()
		if closed() {
			break
		}
	}
	// everything that is still on its way arrives
	for i := 0; i < 6; i++ {
		shuttle(ab)
		shuttle(ba)
		sa.ReleaseIn(1 << 30)
		sb.ReleaseIn(1 << 30)
		e.Wait()
	}
	if closed() {
		e.Violate("C07.R1", "connection-closed-on-valid-stream", "a connection closed although only valid frames within the maximum were exchanged; errors A=%v B=%v", epA.Errors(), epB.Errors())
		return
	}
	allStarted := true
	for _, m := range msgs {
		if !m.started {
			allStarted = false
			continue
		}
		e.mu.Lock()
		h, ok := m.handled, m.upOK
		e.mu.Unlock()
		switch {
		case h == 0:
			e.Violate("C07.R1", "message-lost", "request n=%d (%d body bytes) was written by A (frames on the wire: %d) and never reached B's handler", m.n, m.upLen, m.wireSeen)
		case h > 1:
			e.Violate("C07.R2", "message-delivered-twice", "request n=%d reached B's handler %d times", m.n, h)
		case !ok:
			e.Violate("C07.R3", "message-incomplete", "request n=%d reached B's handler with a different code or body", m.n)
		}
		if !m.call.Done() {
			e.Violate("C07.R1", "message-lost", "the call for n=%d has not returned although everything was delivered", m.n)
			continue
		}
		ri, err := m.call.Result()
		if m.oneWay {
			if err != nil {
				e.Violate("C07.R1", "write-failed-on-valid-stream", "one-way write n=%d failed: %v", m.n, err)
			}
			continue
		}
		if err != nil {
			e.Violate("C07.R1", "message-lost", "request n=%d failed on a healthy connection: %v", m.n, err)
		} else if !bytes.Equal(ri.Payload, down(m)) || ri.Code != byte(codes.Content) {
			e.Violate("C07.R3", "message-incomplete", "response to n=%d: got %s, B answered 2.05 with %d bytes", m.n, ri, m.downLen)
		}
	}
	_ = allStarted
	e.mu.Lock()
	got := append([]int(nil), order...)
	e.mu.Unlock()
	if len(got) == len(wireUp) {
		for i := range got {
			if got[i] != wireUp[i] {
				e.Violate("C07.R3", "out-of-order", "B's handler saw requests in order %v, the wire carried %v", got, wireUp)
				break
			}
		}
	}
}
