package sim

import (
	"bytes"
	"context"
	"fmt"
	"time"

	"github.com/plgd-dev/go-coap/v3/message/pool"
	"github.com/plgd-dev/go-coap/v3/net/blockwise"
	"github.com/plgd-dev/go-coap/v3/options"
	"github.com/plgd-dev/go-coap/v3/tcp"
)

// C08, block-wise notifications (RFC 7641 with RFC 7959 2.6): the notifier sends the first block of a
// representation together with the Observe number; the connection fetches the rest under a token of its own. The
// resource keeps changing while that goes on: later blocks come from a newer representation (other ETag, the
// transfer starts over), newer notifications overtake the transfer. Whatever happens in between, the callback
//   - only ever gets complete representations the notifier really held,
//   - every delivery carries the Observe number of a notification and is fresher than the previous delivery,
//   - the body delivered under Observe number k is representation k or a later one (never an older one).

func c08BlockwiseRun(e *Env) {
	t := e.Tape
	tr := PickTransport(t)
	nNotes := 2 + t.Choose(5)
	const bs = 16
	// request slots: switched off, or the defaults of the configuration (one request at a time, NSTART 1) - the
	// follow-up fetch of a block-wise notification is a request like any other
	slots, nstart := int64(0), uint32(16)
	if t.Chance(1, 2) {
		slots, nstart = 1, 1
	}
	var w *CWorld
	if IsDatagram(tr) {
		cfg := SimUDPConfig(int32(t.Choose(65536)))
		cfg.TransmissionNStart = nstart
		cfg.LimitClientParallelRequests, cfg.LimitClientEndpointParallelRequests = slots, slots
		cfg.TransmissionAcknowledgeTimeout = 1000 * time.Second
		cfg.BlockwiseEnable = true
		cfg.BlockwiseSZX = blockwise.SZX16
		cfg.BlockwiseTransferTimeout = 5 * time.Second
		w = NewCWorld(e, CWorldCfg{Transport: tr, UDP: cfg})
	} else {
		w = NewCWorld(e, CWorldCfg{Transport: tr, TCPOpts: []tcp.Option{
			options.WithBlockwise(true, blockwise.SZX16, 5*time.Second), options.WithCloseSocket(),
			options.WithLimitClientParallelRequest(slots), options.WithLimitClientEndpointParallelRequest(slots),
		}})
	}
	if w == nil {
		return
	}
	e.Real("net/blockwise (block-wise notifications: RFC 7959 2.6)", "net/observation")
	e.Wait()
	w.Pump()
	if !IsDatagram(tr) {
		it := w.Queue(&WMsg{Code: 0xe1, Token: []byte{1}, Opts: []WOpt{{Num: OptTCPBlockWise}}}, "csm")
		w.Emit(it, false)
		e.Wait()
		w.Pump()
	}
	e.Logf("cfg transport=%s notifications=%d", tr, nNotes)

	// representations: index k >= 1; the registration answer is representation 0 (one block)
	type repr struct {
		body []byte
		etag []byte
		seq  uint32
	}
	reprs := []*repr{{body: []byte("reg"), etag: []byte{0xe0}, seq: 10}}
	cur := func() *repr { return reprs[len(reprs)-1] }
	var obsToken []byte
	type delivery struct {
		hasObs bool
		seq    uint32
		body   []byte
	}
	var got []delivery

	reply := func(m *WMsg, code byte, opts []WOpt, pl []byte, label string) {
		var it *OutItem
		if IsDatagram(tr) && m.Type == TCON {
			it = w.Queue(&WMsg{Type: TACK, Code: code, MID: m.MID, Token: m.Token, Opts: opts, Payload: pl}, label)
		} else {
			it = w.Queue(&WMsg{Type: TNON, Code: code, MID: w.NextPeerMID(), Token: m.Token, Opts: opts, Payload: pl}, label)
		}
		it.NoDup, it.NoDrop = true, true
	}
	w.OnRecv = func(m *WMsg) {
		if IsDatagram(tr) && (m.Type == TACK || m.Type == TRST) {
			return
		}
		if m.Code != 1 {
			return
		}
		if ov, isObs := m.OptUint(OptObserve); isObs && ov == 0 {
			if _, hasBlock := m.OptUint(OptBlock2); !hasBlock {
				obsToken = m.Token
				reply(m, 0x45, []WOpt{{Num: OptETag, Val: reprs[0].etag}, UintOpt(OptObserve, reprs[0].seq)}, reprs[0].body, "registration-answer")
				return
			}
		}
		if b2, ok := m.OptUint(OptBlock2); ok {
			// a block of the current representation (a server answers from what the resource holds now)
			num, _, _ := ParseBlock(b2)
			r := cur()
			lo := int(num) * bs
			if lo >= len(r.body) {
				reply(m, 0x82, nil, nil, fmt.Sprintf("bad-option(block %d beyond representation %d)", num, len(reprs)-1))
				return
			}
			hi := min(lo+bs, len(r.body))
			e.Probe("bwnotify.followUpBlockServed")
			reply(m, 0x45, []WOpt{{Num: OptETag, Val: r.etag}, UintOpt(OptBlock2, BlockOpt(num, hi < len(r.body), 0))}, r.body[lo:hi], fmt.Sprintf("block %d of representation %d", num, len(reprs)-1))
		}
	}
	call := e.NewCall("observe", 0, nil, 3000*time.Second)
	e.Start(call, func(ctx context.Context) (*pool.Message, error) {
		_, err := w.API.Observe(ctx, "/big", func(n *pool.Message) {
			ri := Snapshot(n)
			d := delivery{body: ri.Payload}
			if v, ok := ri.Opt(OptObserve); ok {
				d.hasObs = true
				for _, b := range v {
					d.seq = d.seq<<8 | uint32(b)
				}
			}
			e.mu.Lock()
			got = append(got, d)
			e.mu.Unlock()
			e.Notef("callback: observe=%v seq=%d body=%d bytes", d.hasObs, d.seq, len(d.body))
		}, QueryOpt(0))
		return nil, err
	}, w.API.ReleaseMessage)
	e.Wait()
	w.Pump()

	produced := 0
	for step := 0; step < 80 && e.Budget(); step++ {
		evs := w.Events(5)
		if obsToken != nil && call.Done() && produced < nNotes {
			evs = append(evs, Event{Label: "notify", W: 3, Do: func() {
				produced++
				k := len(reprs)
				size := bs + 1 + t.Choose(3*bs)
				if t.Chance(1, 4) {
					size = 1 + t.Choose(bs) // fits one block: an ordinary notification
				}
				r := &repr{body: Body(700+k, size), etag: []byte{0xe0, byte(k)}, seq: reprs[0].seq + uint32(k)}
				reprs = append(reprs, r)
				opts := []WOpt{{Num: OptETag, Val: r.etag}, UintOpt(OptObserve, r.seq)}
				pl := r.body
				if size > bs {
					opts = append(opts, UintOpt(OptBlock2, BlockOpt(0, true, 0)))
					pl = r.body[:bs]
					e.NonTrivial()
					e.Probe("bwnotify.multiBlockNotification")
					if produced > 1 {
						e.Probe("bwnotify.representationChangedDuringTransfer")
					}
				}
				typ := TNON
				if IsDatagram(tr) && t.Chance(1, 3) {
					typ = TCON
				}
				it := w.Queue(&WMsg{Type: typ, Code: 0x45, MID: w.NextPeerMID(), Token: obsToken, Opts: opts, Payload: pl}, fmt.Sprintf("notification %d (seq %d, %d bytes)", k, r.seq, size))
				it.NoDup, it.NoDrop = true, true
				e.Logf("the resource changes: representation %d, %d bytes, seq %d", k, size, r.seq)
			}})
		}
		evs = append(evs, Event{Label: "advance", W: 1, Do: func() {
			dt := []time.Duration{time.Second, 6 * time.Second}[t.Choose(2)]
			e.Logf("advance %v then tick", dt)
			e.Sleep(dt)
			e.Fault("tick")
			w.Tick(time.Now())
		}})
		w.Step(evs)
		if produced >= nNotes && len(w.Outbox) == 0 {
			break
		}
	}
	for i := 0; i < 12; i++ {
		w.prune()
		if len(w.Outbox) == 0 {
			break
		}
		for _, it := range append([]*OutItem(nil), w.Outbox...) {
			w.Emit(it, false)
			e.Wait()
			w.Pump()
		}
	}
	e.Wait()

	// ---- oracle
	e.mu.Lock()
	ds := append([]delivery(nil), got...)
	e.mu.Unlock()
	indexOf := func(b []byte) int {
		for i, r := range reprs {
			if bytes.Equal(r.body, b) {
				return i
			}
		}
		return -1
	}
	lastSeq, haveLast := uint32(0), false
	for i, d := range ds {
		idx := indexOf(d.body)
		if idx < 0 {
			sig := "notification-body-is-a-mixture"
			for _, r := range reprs {
				if len(d.body) < len(r.body) && bytes.Equal(d.body, r.body[:len(d.body)]) {
					sig = "partial-notification-body-presented-as-complete"
				}
			}
			e.Violate("C08.R6", sig, "delivery #%d: a %d byte body that is no representation the resource ever held", i, len(d.body))
			continue
		}
		if !d.hasObs {
			e.Violate("C08.R1", "notification-delivered-without-observe-number", "delivery #%d (representation %d) reached the callback without an Observe option although every notification of the notifier carries one: it bypasses the freshness rule", i, idx)
			continue
		}
		if haveLast && !(d.seq > lastSeq) {
			e.Violate("C08.R1", "stale-or-foreign-notification-delivered", "delivery #%d has Observe %d after Observe %d was delivered", i, d.seq, lastSeq)
		}
		if k := int(d.seq - reprs[0].seq); k >= 0 && k < len(reprs) && idx < k {
			e.Violate("C08.R6", "older-representation-under-newer-observe-number", "delivery #%d carries Observe %d (notification %d) with the body of the older representation %d", i, d.seq, k, idx)
		}
		lastSeq, haveLast = d.seq, true
	}
	if len(ds) > 1 {
		e.Probe("bwnotify.delivered")
	}
}
