package sim

import (
	"bytes"
	"context"
	"fmt"
	"time"

	"github.com/plgd-dev/go-coap/v3/message"
	"github.com/plgd-dev/go-coap/v3/message/codes"
	"github.com/plgd-dev/go-coap/v3/message/pool"
	"github.com/plgd-dev/go-coap/v3/net/responsewriter"
	udpClient "github.com/plgd-dev/go-coap/v3/udp/client"
)

// C05 — datagram duplicates never re-execute a handler (MID de-duplication).

const exchangeLifetime = 247 * time.Second // RFC 7252 4.8.2 (written from the RFC, not imported)

func init() {
	Register(&PropDef{
		ID:    "C05",
		Title: "Datagram duplicates never re-execute a handler (MID de-duplication)",
		Rule: "a scripted client sends up to 8 distinct CON/NON requests (handlers: piggybacked response, no response, separate response) and re-sends copies at delays drawn around 0, ACK_TIMEOUT and the 247 s lifetime boundary (+-1 ms), " +
			"message IDs incl. values equal to the endpoint's own outgoing IDs, with loss/duplication/reordering by the network, housekeeping ticks, concurrent client-role requests of the endpoint and (concurrency mode) handlers held inside the per-MID section; " +
			"non-trivial = at least one copy of an already seen request was delivered; distinct = distinct event-log hash",
		Scenarios: []Scenario{
			{Name: "S-DEDUP/boundary", Weight: 6, Run: func(e *Env) { c05Run(e, false) }},
			{Name: "S-DEDUP/concurrent", Weight: 6, Run: func(e *Env) { c05Run(e, true) }},
			{Name: "S-DEDUP/server-connection", Weight: 2, Run: c05ServerRun},
			{Name: "S-DEDUP/lock-refcount", Weight: 1, Run: c05LockRefcountRun},
		},
		Quick:    150000,
		Thorough: 3000000,
		Require:  []string{"server.newConnToKnownPeer", "pool.recyclingOn", "copy.duplicate", "copy.exactlyAtBoundary", "copy.fresh.nearBoundary", "dgram.dup", "app.separateResponse", "handler.tookRequestOverAndReleasedIt", "lock.moreWaitersThanSixteenBits", "handler.explicitEmpty"},
		Assume: []string{
			"a copy arriving exactly 247 s after the first is accepted as either duplicate or fresh (the statement is silent on equality)",
			"in boundary mode handlers return at once, so 'first copy arrived' and 'reply stored' are the same instant; concurrency mode never probes the boundary",
			"the scripted client never reuses a message ID for a different request within the lifetime",
		},
	})
}

type c05Req struct {
	nonce      int
	typ        int
	mid        uint16
	token      []byte
	path       string
	raw        []byte
	copies     int // copies injected so far
	t0         time.Duration
	seen       bool
	firstReply *WMsg
	hasReply   bool
	// expectations accumulated at delivery time
	minRuns, maxRuns int
	dupExpected      int // copies classified as duplicates that must be answered like the first
	handlerRuns      int
	replies          []*WMsg
	sepSent          bool
}

func c05Run(e *Env, concurrent bool) {
	t := e.Tape
	ackTO := 2 * time.Second
	// the connection's message pool recycles objects (LIFO) in two runs out of three: a reply recorded for
	// duplicates must not live in memory that belongs to a pooled message
	if pc := []uint32{0, 1, 1024}[t.Choose(3)]; e.PoolCapacity == 0 && pc > 0 {
		e.PoolCapacity = pc
		e.Probe("pool.recyclingOn")
	}
	cfg := SimUDPConfig(int32(t.Choose(65536)))
	cfg.TransmissionAcknowledgeTimeout = ackTO
	cfg.TransmissionMaxRetransmit = uint32(1 + t.Choose(3))
	cfg.TransmissionNStart = 8
	cfg.BlockwiseEnable = t.Chance(1, 4)
	nReqMax := 2 + t.Choose(7)
	var reqs []*c05Req
	byNonce := func(n int) *c05Req {
		if n >= 0 && n < len(reqs) {
			return reqs[n]
		}
		return nil
	}
	var w *UWorld
	// recording handler; behaviour is a function of the path only
	// the separate-response idiom: a handler that answers later takes the request over (Hijack) and is free to give
	// it back to the pool whenever it is done with it - here at once, before it returns
	hijack := t.Chance(1, 3)
	cfg.Handler = func(rw *responsewriter.ResponseWriter[*udpClient.Conn], r *pool.Message) {
		takesOver := false
		if p, err := r.Options().Path(); hijack && err == nil && (p == "/none" || p == "/sep") {
			takesOver = true
		}
		if e.Pool.Enabled && !takesOver {
			e.Pool.Hold(r, "request inside its handler")
			snap := Snapshot(r)
			e.Pool.CheckHandover(snap, "request handed to a handler")
			defer func() {
				e.Pool.CheckHeld(r, snap)
				e.Pool.Unhold(r)
			}()
		}
		q, _ := r.Options().Queries()
		n := -1
		for _, s := range q {
			_, _ = fmt.Sscanf(s, "n=%d", &n)
		}
		path, _ := r.Options().Path()
		e.mu.Lock()
		rq := byNonce(n)
		runs := 0
		if rq != nil {
			rq.handlerRuns++
			runs = rq.handlerRuns
		}
		e.mu.Unlock()
		e.Notef("handler n=%d path=%s mid=%d type=%v run#%d", n, path, r.MessageID(), r.Type(), runs)
		switch path {
		case "/pig":
			_ = rw.SetResponse(codes.Content, message.TextPlain, bytes.NewReader([]byte(fmt.Sprintf("pig-%d-run%d", n, runs))),
				message.Option{ID: message.MaxAge, Value: []byte{byte(n + 1)}})
		case "/empty":
			// the explicit spelling of "I will answer later": the handler sets the Empty message itself
			e.Probe("handler.explicitEmpty")
			_ = rw.SetResponse(codes.Empty, message.TextPlain, nil)
		case "/none", "/sep":
			if takesOver {
				r.Hijack()
				rw.Conn().ReleaseMessage(r)
				e.Probe("handler.tookRequestOverAndReleasedIt")
			}
		}
	}
	w = NewUWorld(e, cfg, nil)
	w.Faults = NetFaults{DeliverW: 6, DropToEP: t.Choose(2), DropToPeer: t.Choose(3), DupToEP: t.Choose(3), DupToPeer: 0}
	if concurrent {
		// hold some copies inside the per-MID section (after the cache check, before dispatch)
		switch t.Choose(3) {
		case 1:
			e.EnablePark("udp.handleReq.afterCacheCheck", 0)
		case 2:
			e.EnablePark("udp.handleReq.afterCacheCheck", 1, 2)
		}
	}
	e.Logf("cfg concurrent=%v nReq<=%d faults=%+v bw=%v maxRetx=%d", concurrent, nReqMax, w.Faults, cfg.BlockwiseEnable, cfg.TransmissionMaxRetransmit)

	var epOwnMIDs []uint16
	appCalls := 0
	var calls []*Call

	// the scripted peer: collects replies, acknowledges CON messages of the endpoint, answers its requests
	w.OnPeer = func(m *WMsg, d *Dgram) {
		if m.Type == TCON || m.Type == TNON {
			epOwnMIDs = append(epOwnMIDs, m.MID)
		}
		if m.Type == TCON {
			if m.Code >= 1 && m.Code <= 4 {
				// client-role request of the endpoint: piggybacked answer
				w.PeerSend(&WMsg{Type: TACK, Code: 0x45, MID: m.MID, Token: m.Token, Payload: []byte("app")})
			} else {
				w.PeerSend(&WMsg{Type: TACK, Code: 0, MID: m.MID})
			}
		}
		// match replies to requests: ACK by MID, other responses by token
		for _, rq := range reqs {
			if (m.Type == TACK && m.MID == rq.mid && rq.typ == TCON) || (m.Code > 4 && m.Code != 0 && len(m.Token) > 0 && bytes.Equal(m.Token, rq.token) && m.Type != TACK) ||
				(rq.path == "/empty" && rq.typ == TNON && m.Type == TNON && m.Code == 0 && bytes.Equal(m.Token, rq.token)) {
				if rq.sepSent && m.Type == TCON && bytes.HasPrefix(m.Payload, []byte("sep-")) {
					continue // the separate response of the application, not a reply of the de-duplication layer
				}
				rq.replies = append(rq.replies, m)
			}
		}
	}
	// classification at delivery time (reference model A.2)
	w.OnDeliverToEP = func(m *WMsg, d *Dgram, dup bool) {
		if m.Type != TCON && m.Type != TNON || m.Code == 0 || m.Code > 4 {
			return
		}
		rq := byNonce(ParseNonce(m))
		if rq == nil {
			return
		}
		now := e.Now()
		if !rq.seen {
			rq.seen, rq.t0 = true, now
			rq.minRuns, rq.maxRuns = 1, 1
			e.Logf("model: n=%d first copy at %v", rq.nonce, now)
			return
		}
		e.NonTrivial()
		age := now - rq.t0
		exempt := rq.typ == TNON && rq.path != "/pig" && rq.path != "/empty" // NON request without reply: never entered
		switch {
		case exempt:
			rq.maxRuns++
			e.Probe("copy.exemptNON")
			e.Logf("model: n=%d copy at age %v: NON without reply, exempt", rq.nonce, age)
		case age < exchangeLifetime:
			rq.dupExpected++
			e.Probe("copy.duplicate")
			if exchangeLifetime-age <= 2*time.Millisecond {
				e.Probe("copy.duplicate.nearBoundary")
			}
			e.Logf("model: n=%d copy at age %v: duplicate", rq.nonce, age)
		case age == exchangeLifetime:
			rq.maxRuns++
			e.Probe("copy.exactlyAtBoundary")
			e.Logf("model: n=%d copy at age %v: exactly at the boundary, either", rq.nonce, age)
		default:
			rq.minRuns++
			rq.maxRuns++
			rq.t0 = now
			e.Probe("copy.fresh")
			if age-exchangeLifetime <= 2*time.Millisecond {
				e.Probe("copy.fresh.nearBoundary")
			}
			e.Logf("model: n=%d copy at age %v: fresh again", rq.nonce, age)
		}
	}

	for e.Budget() {
		evs := w.NetEvents()
		// new request
		if len(reqs) < nReqMax {
			evs = append(evs, Event{Label: "newreq", W: 4, Do: func() {
				n := len(reqs)
				rq := &c05Req{nonce: n, token: []byte{0x10, byte(n)}}
				rq.typ = []int{TCON, TNON}[t.Choose(2)]
				rq.path = []string{"/pig", "/none", "/sep", "/empty"}[t.Weighted(3, 3, 3, 1)]
				// message ID: fresh counter value, or equal to one of the endpoint's own outgoing IDs
				rq.mid = uint16(1000 + 7*n)
				if len(epOwnMIDs) > 0 && t.Chance(1, 3) {
					rq.mid = epOwnMIDs[t.Choose(len(epOwnMIDs))]
					e.Probe("mid.equalsEndpointOwn")
				}
				for unique := false; !unique; { // never reuse an ID for a different request
					unique = true
					for _, o := range reqs {
						if o.mid == rq.mid {
							rq.mid += 3
							unique = false
						}
					}
				}
				m := &WMsg{Type: rq.typ, Code: 1, MID: rq.mid, Token: rq.token,
					Opts: []WOpt{{Num: OptURIPath, Val: []byte(rq.path[1:])}, {Num: OptURIQuery, Val: []byte(fmt.Sprintf("n=%d", n))}}}
				rq.raw = EncodeUDP(m)
				rq.copies = 1
				reqs = append(reqs, rq)
				e.Logf("peer sends request n=%d %s", n, m)
				w.PeerSendRaw(rq.raw)
			}})
		}
		// another copy of an earlier request
		for _, rq := range reqs {
			rq := rq
			if rq.copies < 4 {
				evs = append(evs, Event{Label: "copy", W: 2, Do: func() {
					rq.copies++
					e.Fault("peer.retransmit")
					e.Logf("peer re-sends request n=%d (copy %d)", rq.nonce, rq.copies)
					w.PeerSendRaw(rq.raw)
				}})
			}
		}
		// time
		evs = append(evs, Event{Label: "advance", W: 3, Do: func() {
			var dt time.Duration
			if !concurrent && len(reqs) > 0 && t.Chance(2, 3) {
				// aim at the lifetime boundary of one request
				rq := reqs[t.Choose(len(reqs))]
				if rq.seen {
					left := rq.t0 + exchangeLifetime - e.Now()
					dt = left + []time.Duration{-time.Millisecond, 0, time.Millisecond, -time.Nanosecond, time.Nanosecond, -4 * time.Second, 4 * time.Second}[t.Choose(7)]
				}
			}
			if dt <= 0 {
				dt = []time.Duration{time.Millisecond, ackTO, 100 * time.Second, 300 * time.Second, 30 * time.Second}[t.Choose(5)]
				if concurrent {
					dt = []time.Duration{time.Millisecond, ackTO, 10 * time.Second}[t.Choose(3)]
				}
			}
			e.Logf("advance %v", dt)
			e.Fault("time.advance")
			e.Sleep(dt)
		}})
		evs = append(evs, Event{Label: "tick", W: 2, Do: func() {
			e.Logf("tick")
			e.Fault("tick")
			w.EP.Tick(time.Now())
		}})
		// client-role request of the application on the same connection (own MIDs, reader-loop replacement)
		if appCalls < 3 {
			evs = append(evs, Event{Label: "appget", W: 1, Do: func() {
				appCalls++
				c := e.NewCall(fmt.Sprintf("appget%d", appCalls), 100+appCalls, nil, 20*time.Second)
				calls = append(calls, c)
				e.Logf("application GET /app (client role)")
				e.Probe("app.clientRequest")
				e.Start(c, func(ctx context.Context) (*pool.Message, error) { return w.EP.CC.Get(ctx, "/app") }, w.EP.CC.ReleaseMessage)
			}})
		}
		// separate response for a /sep request that has been handled
		for _, rq := range reqs {
			rq := rq
			e.mu.Lock()
			runs := rq.handlerRuns
			e.mu.Unlock()
			if rq.path == "/sep" && runs > 0 && !rq.sepSent {
				evs = append(evs, Event{Label: "separate", W: 1, Do: func() {
					rq.sepSent = true
					e.Logf("application sends the separate response for n=%d", rq.nonce)
					e.Probe("app.separateResponse")
					go func() {
						ctx, cancel := context.WithTimeout(context.Background(), 10*time.Second)
						defer cancel()
						m := w.EP.CC.AcquireMessage(ctx)
						defer w.EP.CC.ReleaseMessage(m)
						m.SetCode(codes.Content)
						m.SetToken(rq.token)
						m.SetBody(bytes.NewReader([]byte(fmt.Sprintf("sep-%d", rq.nonce))))
						_ = w.EP.CC.WriteMessage(m)
					}()
				}})
			}
		}
		for _, pg := range e.Parked() {
			pg := pg
			evs = append(evs, Event{Label: "resume", W: 2, Do: func() {
				e.Logf("resume %s#%d mid=%d", pg.Site, pg.Hit, pg.Key)
				e.Probe("park.heldInPerMIDSection")
				e.Resume(pg)
			}})
		}
		done := len(reqs) >= nReqMax && len(w.N.PendingList()) == 0 && len(e.Parked()) == 0
		if done {
			all := true
			for _, rq := range reqs {
				if rq.copies < 2 {
					all = false
				}
			}
			if all && t.Chance(1, 3) {
				break
			}
		}
		e.Pick(evs).Do()
		e.Wait()
	}
	// heal and drain
	e.DisableAllParks()
	for _, pg := range e.Parked() {
		e.Resume(pg)
	}
	e.Wait()
	w.Faults = NetFaults{DeliverW: 1}
	w.Drain(3, ackTO)
	for _, c := range calls {
		if !c.Done() {
			e.CancelCall(c)
		}
	}
	e.Wait()

	closed := w.EP.CC.Context().Err() != nil
	if closed {
		e.Probe("endpoint.closedDuringRun")
		if errs := w.EP.Errors(); len(errs) > 0 {
			e.Logf("endpoint closed itself: %v", errs)
		}
	}
	for _, rq := range reqs {
		if !rq.seen {
			continue
		}
		e.mu.Lock()
		runs := rq.handlerRuns
		e.mu.Unlock()
		tn := map[int]string{TCON: "CON", TNON: "NON"}[rq.typ]
		e.Logf("result n=%d %s %s mid=%d: handler runs=%d (model %d..%d), duplicates=%d, replies=%d", rq.nonce, tn, rq.path, rq.mid, runs, rq.minRuns, rq.maxRuns, rq.dupExpected, len(rq.replies))
		if runs > rq.maxRuns {
			rule := "C05.R1"
			if rq.typ == TNON {
				rule = "C05.R2"
			}
			e.Violate(rule, "handler-re-executed:"+tn+rq.path, "request n=%d (%s %s mid %d): handler ran %d times, at most %d expected (%d duplicate copies delivered within the lifetime)", rq.nonce, tn, rq.path, rq.mid, runs, rq.maxRuns, rq.dupExpected)
		}
		if runs < rq.minRuns && !closed {
			e.Violate("C05.R5", "fresh-request-not-handled:"+tn+rq.path, "request n=%d (%s %s mid %d): handler ran %d times, at least %d expected (fresh copies)", rq.nonce, tn, rq.path, rq.mid, runs, rq.minRuns)
		}
		// replies: every reply must equal the first one (code, token, options, payload); CON duplicates are matched to the MID
		if len(rq.replies) > 0 {
			first := rq.replies[0]
			for i, r := range rq.replies[1:] {
				if runs > 1 {
					break // re-executions (legal or reported above) produce new replies
				}
				if r.Code != first.Code || !bytes.Equal(r.Token, first.Token) || !bytes.Equal(r.Payload, first.Payload) || !optsEqual(r.Opts, first.Opts) {
					e.Violate("C05.R3", "duplicate-reply-differs:"+tn+rq.path, "request n=%d: reply #%d to a duplicate (%s) differs from the first reply (%s)", rq.nonce, i+2, r, first)
				}
				if rq.typ == TCON && (r.Type != TACK || r.MID != rq.mid) {
					e.Violate("C05.R3", "duplicate-reply-not-matched:"+tn+rq.path, "request n=%d: reply to a duplicate is %s, expected an ACK with mid %d", rq.nonce, r, rq.mid)
				}
			}
			// a reply must belong to this request
			if rq.path == "/pig" && !bytes.HasPrefix(first.Payload, []byte(fmt.Sprintf("pig-%d-", rq.nonce))) && first.Code != 0 {
				e.Violate("C05.R5", "foreign-reply-served:"+tn+rq.path, "request n=%d got a reply that was produced for another exchange: %s", rq.nonce, first)
			}
		}
	}
}

func optsEqual(a, b []WOpt) bool {
	if len(a) != len(b) {
		return false
	}
	for i := range a {
		if a[i].Num != b[i].Num || !bytes.Equal(a[i].Val, b[i].Val) {
			return false
		}
	}
	return true
}
