package sim

import (
	"bytes"
	"context"
	"fmt"
	"time"

	"github.com/plgd-dev/go-coap/v3/message/pool"
	"github.com/plgd-dev/go-coap/v3/net/client"
	"github.com/plgd-dev/go-coap/v3/options"
	"github.com/plgd-dev/go-coap/v3/tcp"
)

// C16, connection level: the limiter as it is wired into a real connection. Everything the application can make
// the connection send as a request - Get, observe registration, and the deregistration that Observation.Cancel
// sends - counts against the limits. Judged on the wire: a request may only appear at the peer while fewer than
// `limit` earlier requests are still unanswered and unreturned.

func c16ConnRun(e *Env) {
	t := e.Tape
	tr := PickTransport(t)
	total := int64(1 + t.Choose(2))
	perPath := int64(1)
	nOps := 2 + t.Choose(4)
	var w *CWorld
	if IsDatagram(tr) {
		cfg := SimUDPConfig(int32(t.Choose(65536)))
		cfg.TransmissionNStart = 16
		cfg.TransmissionAcknowledgeTimeout = 1000 * time.Second
		cfg.BlockwiseEnable = false
		cfg.LimitClientParallelRequests = total
		cfg.LimitClientEndpointParallelRequests = perPath
		w = NewCWorld(e, CWorldCfg{Transport: tr, UDP: cfg})
	} else {
		w = NewCWorld(e, CWorldCfg{Transport: tr, TCPOpts: []tcp.Option{
			options.WithLimitClientParallelRequest(total), options.WithLimitClientEndpointParallelRequest(perPath), options.WithCloseSocket(),
		}})
	}
	if w == nil {
		return
	}
	e.Real("net/client/limitParallelRequests (as wired into the connection: Do, DoObserve, observation cancel)")
	e.Wait()
	w.Pump()
	e.Logf("cfg transport=%s total=%d per-path=%d ops=%d", tr, total, perPath, nOps)

	type wireReq struct {
		token    []byte
		path     string
		dereg    bool
		answered bool // the answer was handed to the connection
		call     *Call
		item     *OutItem
	}
	var wire []*wireReq
	type op struct {
		kind   int // 0 get, 1 observe, 2 cancel observation
		path   string
		call   *Call
		obs    client.Observation
		token  []byte // observe: the token of the registration, learnt from the wire
		target *op    // cancel: the observation it cancels
	}
	var ops []*op
	var liveObs []*op
	inFlight := func() (n int, byPath map[string]int) {
		byPath = map[string]int{}
		for _, r := range wire {
			if r.answered || (r.call != nil && r.call.Done()) {
				continue
			}
			n++
			byPath[r.path]++
		}
		return
	}
	w.OnRecv = func(m *WMsg) {
		if IsDatagram(tr) && (m.Type == TACK || m.Type == TRST) {
			return
		}
		if m.Code < 1 || m.Code > 4 {
			return
		}
		ov, isObs := m.OptUint(OptObserve)
		dereg := isObs && ov == 1
		for _, r := range wire {
			if bytes.Equal(r.token, m.Token) && r.dereg == dereg {
				return // a retransmitted copy
			}
		}
		r := &wireReq{token: m.Token, path: m.Path(), dereg: dereg}
		if dereg {
			// the deregistration carries the observation's token; its caller is the Cancel call of that observation
			for _, o := range ops {
				if o.kind == 2 && o.target != nil && bytes.Equal(o.target.token, m.Token) {
					r.call = o.call
				}
			}
		} else if n := ParseNonce(m); n >= 0 && n < len(ops) {
			r.call = ops[n].call
			ops[n].token = m.Token
		}
		n, byPath := inFlight()
		if int64(n) >= total {
			e.Violate("C16.R1", "total-limit-exceeded:connection", "a %s for %s went out while %d requests were still in flight (limit %d) on a %s connection", map[bool]string{false: "request", true: "deregistration"}[dereg], r.path, n, total, tr)
		}
		if int64(byPath[r.path]) >= perPath {
			e.Violate("C16.R1", "endpoint-limit-exceeded:connection", "a %s for %s went out while %d requests for that path were still in flight (per-endpoint limit %d) on a %s connection", map[bool]string{false: "request", true: "deregistration"}[dereg], r.path, byPath[r.path], perPath, tr)
		}
		if n > 0 {
			e.NonTrivial()
		}
		wire = append(wire, r)
		var opts []WOpt
		if isObs && !dereg {
			opts = append(opts, UintOpt(OptObserve, 7))
		}
		if IsDatagram(tr) && m.Type == TCON {
			r.item = w.Queue(&WMsg{Type: TACK, Code: 0x45, MID: m.MID, Token: m.Token, Opts: opts, Payload: []byte("ok")}, fmt.Sprintf("answer(%s dereg=%v)", r.path, dereg))
		} else {
			r.item = w.Queue(&WMsg{Type: TNON, Code: 0x45, MID: w.NextPeerMID(), Token: m.Token, Opts: opts, Payload: []byte("ok")}, fmt.Sprintf("answer(%s dereg=%v)", r.path, dereg))
		}
		r.item.NoDup, r.item.NoDrop = true, true
	}
	w.OnEmit = func(it *OutItem, _ bool) {
		for _, r := range wire {
			if r.item == it {
				r.answered = true
			}
		}
	}

	for step := 0; step < 60 && e.Budget(); step++ {
		evs := w.Events(4)
		if len(ops) < nOps {
			evs = append(evs, Event{Label: "start", W: 4, Do: func() {
				o := &op{kind: t.Weighted(3, 2, 2)}
				if o.kind == 2 && len(liveObs) == 0 {
					o.kind = 1
				}
				idx := len(ops)
				ops = append(ops, o)
				o.call = e.NewCall(fmt.Sprintf("op%d", idx), idx, nil, 3000*time.Second)
				switch o.kind {
				case 0:
					o.path = []string{"/a", "/b"}[t.Choose(2)]
					e.Logf("start op%d get %s", idx, o.path)
					e.Start(o.call, func(ctx context.Context) (*pool.Message, error) { return w.API.Get(ctx, o.path, QueryOpt(idx)) }, w.API.ReleaseMessage)
				case 1:
					o.path = []string{"/a", "/o"}[t.Choose(2)]
					e.Logf("start op%d observe %s", idx, o.path)
					e.Start(o.call, func(ctx context.Context) (*pool.Message, error) {
						ob, err := w.API.Observe(ctx, o.path, func(*pool.Message) {}, QueryOpt(idx))
						if err == nil {
							e.mu.Lock()
							o.obs = ob
							liveObs = append(liveObs, o)
							e.mu.Unlock()
						}
						return nil, err
					}, w.API.ReleaseMessage)
				default:
					e.mu.Lock()
					target := liveObs[0]
					liveObs = liveObs[1:]
					e.mu.Unlock()
					o.path, o.target = target.path, target
					e.Logf("start op%d cancel of the observation of %s", idx, o.path)
					e.Probe("limit.cancelObservation")
					e.Start(o.call, func(ctx context.Context) (*pool.Message, error) { return nil, target.obs.Cancel(ctx) }, w.API.ReleaseMessage)
				}
			}})
		}
		for _, o := range ops {
			o := o
			if !o.call.Done() && !o.call.Cancelled {
				evs = append(evs, Event{Label: "cancel-ctx", W: 1, Do: func() {
					e.Fault("ctx.cancel")
					e.Logf("cancel the context of %s", o.call.Name)
					e.CancelCall(o.call)
				}})
			}
		}
		if len(evs) == 0 {
			break
		}
		w.Step(evs)
	}
	// wind up: everything gets its answer
	for i := 0; i < 10; i++ {
		w.prune()
		if len(w.Outbox) == 0 {
			break
		}
		for _, it := range append([]*OutItem(nil), w.Outbox...) {
			w.Emit(it, false)
			e.Wait()
			w.Pump()
		}
	}
	for _, o := range ops {
		if !o.call.Done() {
			e.Violate("C16.R4", "call-stuck-behind-limiter:connection", "%s has not returned although every request on the wire was answered", o.call.Name)
		}
	}
}
