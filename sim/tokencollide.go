package sim

import "hash/crc64"

// collidingToken returns the 8-byte token whose CRC-64/ISO equals that of tok (0-7 bytes). The library keys its token
// tables by that checksum. CRC is affine over GF(2): crc(m) = A*m + c for 8-byte m; A is built from the 64 unit
// vectors and the system A*m = crc(tok) + c is solved by Gaussian elimination.
func collidingToken(tok []byte) []byte {
	table := crc64.MakeTable(crc64.ISO)
	crc := func(b []byte) uint64 { return crc64.Checksum(b, table) }
	zero := make([]byte, 8)
	c := crc(zero)
	target := crc(tok) ^ c
	// columns of A
	var cols [64]uint64
	for i := 0; i < 64; i++ {
		m := make([]byte, 8)
		m[i/8] = 1 << uint(i%8)
		cols[i] = crc(m) ^ c
	}
	// rows of the augmented system: row r = bit r of every column, plus bit r of the target
	type row struct {
		coef uint64 // bit i = coefficient of unknown i
		rhs  uint64
	}
	rows := make([]row, 64)
	for r := 0; r < 64; r++ {
		for i := 0; i < 64; i++ {
			if cols[i]>>uint(r)&1 == 1 {
				rows[r].coef |= 1 << uint(i)
			}
		}
		rows[r].rhs = target >> uint(r) & 1
	}
	pivotOf := make([]int, 64)
	for i := range pivotOf {
		pivotOf[i] = -1
	}
	rk := 0
	for col := 0; col < 64 && rk < 64; col++ {
		p := -1
		for r := rk; r < 64; r++ {
			if rows[r].coef>>uint(col)&1 == 1 {
				p = r
				break
			}
		}
		if p < 0 {
			continue
		}
		rows[rk], rows[p] = rows[p], rows[rk]
		for r := 0; r < 64; r++ {
			if r != rk && rows[r].coef>>uint(col)&1 == 1 {
				rows[r].coef ^= rows[rk].coef
				rows[r].rhs ^= rows[rk].rhs
			}
		}
		pivotOf[col] = rk
		rk++
	}
	out := make([]byte, 8)
	for col := 0; col < 64; col++ {
		if pivotOf[col] >= 0 && rows[pivotOf[col]].rhs == 1 {
			out[col/8] |= 1 << uint(col%8)
		}
	}
	if crc(out) != crc(tok) {
		return nil
	}
	return out
}
