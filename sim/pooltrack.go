package sim

import (
	"fmt"

	"github.com/plgd-dev/go-coap/v3/message"
	"github.com/plgd-dev/go-coap/v3/message/codes"
	"github.com/plgd-dev/go-coap/v3/message/pool"
	udpCoder "github.com/plgd-dev/go-coap/v3/udp/coder"
)

// PoolTracker observes the life cycle of pooled messages (hook H-POOL).
// States: acquired (default for unknown objects) | released.
type PoolTracker struct {
	env      *Env
	Enabled  bool // violations are only raised when enabled (C12 runs)
	released map[*pool.Message]bool
	held     map[*pool.Message]string // application holds: object -> who
	Releases int
	Recycled int
}

const (
	poisonCode = codes.Code(0xFD)
	poisonMID  = int32(0x6b6b)
	poisonSeq  = uint64(0x6b6b6b6b6b6b6b6b)
)

func newPoolTracker(e *Env) *PoolTracker {
	return &PoolTracker{env: e, released: map[*pool.Message]bool{}, held: map[*pool.Message]string{}}
}

func (p *PoolTracker) onRelease(m any) {
	msg, ok := m.(*pool.Message)
	if !ok || msg == nil {
		return
	}
	e := p.env
	e.imu.Lock()
	p.Releases++
	dbl := p.released[msg]
	who, isHeld := p.held[msg]
	p.released[msg] = true
	en := p.Enabled
	e.imu.Unlock()
	if !en {
		return
	}
	if dbl {
		e.Violate("C12.R1", "double-release", "message %p released twice without re-acquire", msg)
	}
	if isHeld {
		e.Violate("C12.R2", "release-while-held:"+who, "message %p released while the application holds it (%s)", msg, who)
	}
}

func (p *PoolTracker) onPut(m any) {
	msg, ok := m.(*pool.Message)
	if !ok || msg == nil || !p.Enabled {
		return
	}
	// poison after Reset: any later library read shows up on the wire / in a hand-over,
	// any later library write destroys the poison and is seen at the next acquire.
	msg.SetCode(poisonCode)
	msg.SetMessageID(poisonMID)
	msg.SetType(message.Confirmable) // keeps the poisoned content encodable, so that a read-after-release shows on the wire
	msg.SetSequence(poisonSeq)
	// the object's marshal buffer is part of it: overwrite it with the encoding of the poison, so that a slice the
	// library kept into that buffer (a cached reply, a retransmission copy) shows the poison when it is used
	_, _ = msg.MarshalWithEncoder(udpCoder.DefaultCoder)
	msg.SetModified(false)
}

func (p *PoolTracker) onAcquire(m any, recycled bool) {
	msg, ok := m.(*pool.Message)
	if !ok || msg == nil {
		return
	}
	e := p.env
	e.imu.Lock()
	delete(p.released, msg)
	if recycled {
		p.Recycled++
	}
	en := p.Enabled
	e.imu.Unlock()
	if !en || !recycled {
		return
	}
	if msg.Code() != poisonCode || msg.MessageID() != poisonMID || msg.Sequence() != poisonSeq || len(msg.Options()) != 0 || msg.Body() != nil || len(msg.Token()) != 0 {
		e.Violate("C12.R4", "write-after-release", "recycled message %p was written after release: %s", msg, fmt.Sprint(msg))
	}
	ctx := msg.Context()
	msg.Reset()
	msg.SetContext(ctx)
}

// Hold marks msg as legitimately held by the application.
func (p *PoolTracker) Hold(msg *pool.Message, who string) {
	p.env.imu.Lock()
	p.held[msg] = who
	p.env.imu.Unlock()
}

// Unhold ends an application hold.
func (p *PoolTracker) Unhold(msg *pool.Message) {
	p.env.imu.Lock()
	delete(p.held, msg)
	p.env.imu.Unlock()
}
