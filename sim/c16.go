package sim

import (
	"context"
	"errors"
	"fmt"
	"sort"
	"strings"

	"github.com/plgd-dev/go-coap/v3/message"
	"github.com/plgd-dev/go-coap/v3/message/pool"
	limitparallelrequests "github.com/plgd-dev/go-coap/v3/net/client/limitParallelRequests"
)

// C16 — parallel-request limits are never exceeded and never leak.
//
// Micro-harness on limitParallelRequests.LimitParallelRequests alone; the
// wrapped do() blocks on a simulator-controlled gate and keeps the in-flight
// gauge. Events: arrive / cancel / finish / resume(parked before the select).

func init() {
	Register(&PropDef{
		ID:    "C16",
		Title: "Parallel-request limits are never exceeded and never leak",
		Rule: "up to 5 requests over 1-2 paths, limits 1-2 (total and per endpoint), events {arrive, cancel, finish, resume of a caller parked before its select} chosen by the tape; S-LIMIT/connection: the limiter as wired into a real connection (UDP, DTLS shim, TCP, TLS shim) - Get, observe registration and the deregistration sent by Observation.Cancel, judged on the wire; " +
			"non-trivial = at least one request had to queue; distinct = distinct event-log hash",
		Scenarios: []Scenario{{Name: "M-LIMIT", Weight: 4, Run: c16Run}, {Name: "S-LIMIT/connection", Weight: 1, Run: c16ConnRun}},
		Quick:     300000,
		Thorough:  20000000,
		Require:   []string{"limit.cancelObservation", "cancel.queuedWaiter", "cancel.waiterBehindAnother", "request.queued"},
		Assume: []string{
			"the total (cross-path) limit is checked as a bound and for work conservation at the end only; admission order is checked per path, as the property states",
			"a caller cancelled while parked directly before its select has two ready cases (granted, cancelled): both outcomes are accepted and the run is marked racy",
		},
	})
}

type c16Req struct {
	id             int
	path           string
	observe        bool
	ctx            context.Context
	cancel         context.CancelFunc
	fin            chan struct{}
	arrived        bool
	inDo           bool
	ranDo          bool
	returned       bool
	err            error
	cancelled      bool
	finished       bool
	doOrder        int
	gid            uint64
	deferredCancel bool // cancelled while parked before its select: the model processes the cancel when the call returns
	cancelSeen     bool
}

func c16Run(e *Env) {
	t := e.Tape
	e.Real("net/client/limitParallelRequests", "pkg/sync.Map", "golang.org/x/sync/semaphore")
	limit := int64(1 + t.Choose(3)) // 1, 2, 3(>= everything useful)
	epLimit := int64(1 + t.Choose(2))
	nReq := 2 + t.Choose(4)
	nPaths := 1 + t.Choose(2)
	parks := t.Choose(3) // 0: none; 1: first two hits of the select site; 2: hits 1..3
	switch parks {
	case 1:
		e.EnablePark("limit.acquire.beforeSelect", 1, 2)
	case 2:
		e.EnablePark("limit.acquire.beforeSelect", 0, 1, 2, 3)
	}
	e.Logf("cfg limit=%d epLimit=%d nReq=%d nPaths=%d parks=%d", limit, epLimit, nReq, nPaths, parks)

	reqs := make([]*c16Req, nReq)
	doCounter := 0
	var lpr *limitparallelrequests.LimitParallelRequests
	enter := func(m *pool.Message) *c16Req {
		var id int
		q, _ := m.Options().Queries()
		_, _ = fmt.Sscanf(strings.Join(q, ""), "n=%d", &id)
		r := reqs[id]
		e.mu.Lock()
		r.inDo, r.ranDo = true, true
		doCounter++
		r.doOrder = doCounter
		e.mu.Unlock()
		e.Notef("r%d enters do", id)
		<-r.fin
		e.mu.Lock()
		r.inDo = false
		e.mu.Unlock()
		return r
	}
	lpr = limitparallelrequests.New(limit, epLimit, func(m *pool.Message) (*pool.Message, error) {
		enter(m)
		return nil, nil
	}, func(m *pool.Message, _ func(*pool.Message)) (limitparallelrequests.Observation, error) {
		enter(m)
		return nil, nil
	})

	// reference model (A.5), per path
	admitted := map[string][]int{}
	queue := map[string][]int{}
	remove := func(l []int, x int) []int {
		for i, v := range l {
			if v == x {
				return append(l[:i:i], l[i+1:]...)
			}
		}
		return l
	}
	contains := func(l []int, x int) bool {
		for _, v := range l {
			if v == x {
				return true
			}
		}
		return false
	}
	admitNext := func(p string) {
		for int64(len(admitted[p])) < epLimit && len(queue[p]) > 0 {
			admitted[p] = append(admitted[p], queue[p][0])
			queue[p] = queue[p][1:]
		}
	}

	check := func(when string) {
		for _, r := range reqs {
			if r == nil || !r.deferredCancel || r.cancelSeen {
				continue
			}
			e.mu.Lock()
			ret, err, ranDo := r.returned, r.err, r.ranDo
			e.mu.Unlock()
			if ret && err != nil && !ranDo {
				r.cancelSeen = true
				switch {
				case contains(queue[r.path], r.id):
					queue[r.path] = remove(queue[r.path], r.id)
				case contains(admitted[r.path], r.id):
					admitted[r.path] = remove(admitted[r.path], r.id)
					admitNext(r.path)
				}
			}
		}
		e.mu.Lock()
		var inDo []int
		perPath := map[string]int{}
		for _, r := range reqs {
			if r != nil && r.inDo {
				inDo = append(inDo, r.id)
				perPath[r.path]++
			}
		}
		e.mu.Unlock()
		if int64(len(inDo)) > limit {
			e.Violate("C16.R1", "total-limit-exceeded", "%s: %d requests in flight %v, total limit %d", when, len(inDo), inDo, limit)
		}
		for p, n := range perPath {
			if int64(n) > epLimit {
				e.Violate("C16.R1", "endpoint-limit-exceeded", "%s: %d requests in flight on %s, endpoint limit %d", when, n, p, epLimit)
			}
		}
		for _, r := range reqs {
			if r == nil {
				continue
			}
			e.mu.Lock()
			ret, ranDo, err := r.returned, r.ranDo, r.err
			e.mu.Unlock()
			if ret && err != nil && ranDo {
				e.Violate("C16.R3", "cancel-error-after-do", "r%d returned %v although do() ran", r.id, err)
			}
		}
		for _, id := range inDo {
			if !contains(admitted[reqs[id].path], id) {
				e.Violate("C16.R2", "admitted-out-of-turn", "%s: r%d is inside do() but the reference model has it %s (admitted on %s: %v, queue: %v)", when, id, c16Where(id, queue[reqs[id].path]), reqs[id].path, admitted[reqs[id].path], queue[reqs[id].path])
			}
		}
	}

	nextArrive := 0
	for e.Budget() {
		var evs []Event
		// arrive
		if nextArrive < nReq {
			id := nextArrive
			evs = append(evs, Event{Label: "arrive", W: 4, Do: func() {
				nextArrive++
				p := []string{"/a", "/b"}[t.Choose(nPaths)]
				r := &c16Req{id: id, path: p, fin: make(chan struct{}), observe: t.Chance(1, 5)}
				r.ctx, r.cancel = context.WithCancel(context.Background())
				e.OnCleanup(r.cancel)
				reqs[id] = r
				msg := pool.NewMessage(r.ctx)
				_ = msg.SetPath(p)
				msg.AddQuery(fmt.Sprintf("n=%d", id))
				r.arrived = true
				if int64(len(admitted[p])) < epLimit && len(queue[p]) == 0 {
					admitted[p] = append(admitted[p], id)
				} else {
					queue[p] = append(queue[p], id)
					e.NonTrivial()
					e.Probe("request.queued")
				}
				e.Logf("arrive r%d %s observe=%v -> model admitted=%v queue=%v", id, p, r.observe, admitted[p], queue[p])
				go func() {
					e.mu.Lock()
					r.gid = goid()
					e.mu.Unlock()
					var err error
					if r.observe {
						_, err = lpr.DoObserve(msg, func(*pool.Message) {})
					} else {
						_, err = lpr.Do(msg)
					}
					e.mu.Lock()
					r.returned, r.err = true, err
					e.mu.Unlock()
					if err != nil {
						e.Notef("r%d returned error (cancelled=%v)", id, errors.Is(err, context.Canceled))
					} else {
						e.Notef("r%d returned ok", id)
					}
				}()
			}})
		}
		active := 0
		for _, r := range reqs {
			if r == nil {
				continue
			}
			r := r
			e.mu.Lock()
			inDo, ret := r.inDo, r.returned
			e.mu.Unlock()
			if !ret {
				active++
			}
			if inDo && !r.finished {
				evs = append(evs, Event{Label: "finish", W: 3, Do: func() {
					r.finished = true
					admitted[r.path] = remove(admitted[r.path], r.id)
					admitNext(r.path)
					e.Logf("finish r%d -> model admitted=%v queue=%v", r.id, admitted[r.path], queue[r.path])
					close(r.fin)
				}})
			}
			if !ret && !r.cancelled && !r.finished {
				evs = append(evs, Event{Label: "cancel", W: 2, Do: func() {
					r.cancelled = true
					e.Fault("ctx.cancel")
					e.mu.Lock()
					gid := r.gid
					e.mu.Unlock()
					for _, pg := range e.Parked() {
						if pg.Site == "limit.acquire.beforeSelect" && pg.Gid == gid {
							// the caller has not reached its select yet: it is still a live waiter for the
							// implementation; the model processes the cancel when the call is seen to return
							r.deferredCancel = true
							e.Probe("cancel.whileParkedBeforeSelect")
						}
					}
					where := "in do (no effect)"
					switch {
					case r.deferredCancel:
						where = "parked before its select: deferred"
					case contains(queue[r.path], r.id):
						where = "queued"
						e.Probe("cancel.queuedWaiter")
						if queue[r.path][0] != r.id {
							e.Probe("cancel.waiterBehindAnother")
						}
						queue[r.path] = remove(queue[r.path], r.id)
					case contains(admitted[r.path], r.id) && !inDo:
						where = "admitted, waiting for the total limit"
						admitted[r.path] = remove(admitted[r.path], r.id)
						admitNext(r.path)
					}
					e.Logf("cancel r%d (%s) -> model admitted=%v queue=%v", r.id, where, admitted[r.path], queue[r.path])
					r.cancel()
				}})
			}
		}
		for _, pg := range e.Parked() {
			pg := pg
			evs = append(evs, Event{Label: "resume", W: 3, Do: func() {
				e.Logf("resume %s#%d", pg.Site, pg.Hit)
				e.Fault("park.resume")
				for _, r := range reqs {
					if r != nil && r.gid == pg.Gid && r.deferredCancel && contains(admitted[r.path], r.id) {
						// granted and cancelled: two ready select cases, the runtime tosses a coin; both outcomes are legal
						e.MarkRacy()
						e.Probe("select.twoReadyCases")
					}
				}
				e.Resume(pg)
			}})
		}
		if len(evs) == 0 || (nextArrive >= nReq && active == 0) {
			break
		}
		ev := e.Pick(evs)
		ev.Do()
		e.Wait()
		check("after " + ev.Label)
	}
	// drain: resume parked, finish everything in do, until all returned
	e.DisableAllParks()
	for i := 0; i < 4*nReq+4; i++ {
		for _, pg := range e.Parked() {
			e.Resume(pg)
		}
		e.Wait()
		for _, r := range reqs {
			if r == nil {
				continue
			}
			e.mu.Lock()
			inDo := r.inDo
			e.mu.Unlock()
			if inDo && !r.finished {
				r.finished = true
				admitted[r.path] = remove(admitted[r.path], r.id)
				admitNext(r.path)
				close(r.fin)
				e.Wait()
				check("drain")
			}
		}
	}
	// requests still waiting although nothing is in flight: leaked slot
	stuck := []int{}
	for _, r := range reqs {
		if r == nil {
			continue
		}
		e.mu.Lock()
		ret := r.returned
		e.mu.Unlock()
		if !ret {
			stuck = append(stuck, r.id)
		}
	}
	sort.Ints(stuck)
	if len(stuck) > 0 {
		e.Violate("C16.R4", "waiter-stuck-with-idle-limiter", "requests %v never admitted although nothing is in flight any more (slot leaked)", stuck)
		for _, id := range stuck {
			reqs[id].cancel()
		}
		e.Wait()
	}
	ep, w := lpr.VerifQueues()
	if ep != 0 || w != 0 {
		e.Violate("C16.R4", "limiter-not-idle", "all calls returned but the limiter still holds %d endpoint entries / %d waiters", ep, w)
	}
	// a fresh request on every path must be admitted at once
	for pi := 0; pi < nPaths; pi++ {
		p := []string{"/a", "/b"}[pi]
		ctx, cancel := context.WithCancel(context.Background())
		msg := pool.NewMessage(ctx)
		_ = msg.SetPath(p)
		id := len(reqs)
		msg.AddQuery(fmt.Sprintf("n=%d", id))
		r := &c16Req{id: id, path: p, fin: make(chan struct{}), ctx: ctx, cancel: cancel}
		reqs = append(reqs, r)
		go func() { _, _ = lpr.Do(msg) }()
		e.Wait()
		e.mu.Lock()
		in := r.inDo
		e.mu.Unlock()
		if !in {
			e.Violate("C16.R4", "fresh-request-not-admitted", "after all calls returned a new request on %s is not admitted immediately", p)
			cancel()
		} else {
			close(r.fin)
		}
		e.Wait()
		cancel()
	}
}

func c16Where(id int, q []int) string {
	for _, v := range q {
		if v == id {
			return "still queued"
		}
	}
	return "not admitted"
}

var _ = message.URIPath
