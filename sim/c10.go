package sim

import (
	"bytes"
	"context"
	"fmt"
	"net"
	"sort"
	"sync"
	"sync/atomic"
	"syscall"
	"time"

	dtlsServer "github.com/plgd-dev/go-coap/v3/dtls/server"
	"github.com/plgd-dev/go-coap/v3/message"
	"github.com/plgd-dev/go-coap/v3/message/codes"
	"github.com/plgd-dev/go-coap/v3/message/pool"
	"github.com/plgd-dev/go-coap/v3/mux"
	coapNet "github.com/plgd-dev/go-coap/v3/net"
	"github.com/plgd-dev/go-coap/v3/options"
	tcpClient "github.com/plgd-dev/go-coap/v3/tcp/client"
	tcpServer "github.com/plgd-dev/go-coap/v3/tcp/server"
	udpClient "github.com/plgd-dev/go-coap/v3/udp/client"
	udpServer "github.com/plgd-dev/go-coap/v3/udp/server"
)

// C10 — servers stay up and peers stay isolated under arbitrary input.
//
// Real udp/server.Server on a simulated UDPConn (hook H-UDP), real tcp/server.Server
// and dtls/server.Server on simulated listeners. Well-behaved scripted clients and
// adversarial peers; isolation is judged by a twin run: the same well-behaved script
// is executed again, in the same bubble, against a fresh server without the adversaries.

func init() {
	Register(&PropDef{
		ID:    "C10",
		Title: "Servers stay up and peers stay isolated under arbitrary input",
		Rule: "a real server (udp on a simulated socket incl. discovery, tcp and dtls on simulated listeners) serves 2-4 well-behaved scripted clients while 1-3 adversarial peers send arbitrary bytes, truncated / oversize messages, unknown tokens, unsolicited ACK / RST / responses, connect and stall, stall or fail the handshake, close or reset; housekeeping ticks, server-side closure of a peer, Stop at the end; every run is followed by its twin without the adversaries; " +
			"non-trivial = at least one adversarial event hit the server between two requests of a well-behaved client; distinct = distinct event-log hash",
		Scenarios: []Scenario{
			{Name: "S-SERVER/udp", Weight: 3, Run: func(e *Env) { c10Twin(e, "udp") }},
			{Name: "S-SERVER/tcp", Weight: 2, Run: func(e *Env) { c10Twin(e, "tcp") }},
			{Name: "S-SERVER/dtls", Weight: 2, Run: func(e *Env) { c10Twin(e, "dtls") }},
			{Name: "S-SERVER/udp-discovery", Weight: 1, Run: c10Discovery},
		},
		Quick:    100000,
		Thorough: 1000000,
		Require:  []string{"request.afterAdversarialEvent", "discovery.duplicateTokenRefused", "discovery.sendFails", "listener.transientAcceptError", "discovery.foreignToken", "server.closesPeer", "server.keepAliveMode", "keepalive.pingAnsweredByClient"},
		Assume: []string{
			"transcripts are compared on code, token, options and payload, not on message IDs; adversaries never spoof a well-behaved peer's source address; handlers never block",
			"a well-behaved peer whose own traffic was corrupted by the network is exempt from the isolation comparison",
			"pion/dtls is replaced by an ideal record layer with a scripted handshake in this check",
		},
	})
}

// ---- server-side option seams (the Option interfaces are open: any type with the Apply method is an option)

type c10UDPSeam struct {
	tick    func(f func(now time.Time) bool)
	mid     int32
	poolCap uint32 // > 0: a recycling message pool of that capacity
}

func (o c10UDPSeam) pool() *pool.Pool {
	if o.poolCap > 0 {
		return pool.New(o.poolCap, 2048)
	}
	return pool.New(0, 0)
}

func (o c10UDPSeam) UDPServerApply(cfg *udpServer.Config) {
	cfg.PeriodicRunner = o.tick
	var m atomic.Int32
	m.Store(o.mid)
	cfg.GetMID = func() int32 { return m.Add(1) & 0xffff }
	cfg.MessagePool = o.pool()
}
func (o c10UDPSeam) DTLSServerApply(cfg *dtlsServer.Config) {
	cfg.PeriodicRunner = o.tick
	var m atomic.Int32
	m.Store(o.mid)
	cfg.GetMID = func() int32 { return m.Add(1) & 0xffff }
	cfg.MessagePool = o.pool()
}
func (o c10UDPSeam) TCPServerApply(cfg *tcpServer.Config) {
	cfg.PeriodicRunner = o.tick
	cfg.MessagePool = o.pool()
}

// simulated stream / record listener
type simListener struct {
	mu     sync.Mutex
	queue  []net.Conn
	fail   []error // transient accept errors (descriptor table full, no buffers), one per Accept call
	wake   chan struct{}
	closed chan struct{}
	once   sync.Once
}

func newSimListener() *simListener {
	return &simListener{wake: make(chan struct{}, 1), closed: make(chan struct{})}
}

func (l *simListener) AcceptWithContext(ctx context.Context) (net.Conn, error) {
	for {
		l.mu.Lock()
		if len(l.fail) > 0 {
			err := l.fail[0]
			l.fail = l.fail[1:]
			l.mu.Unlock()
			return nil, err
		}
		if len(l.queue) > 0 {
			c := l.queue[0]
			l.queue = l.queue[1:]
			l.mu.Unlock()
			return c, nil
		}
		l.mu.Unlock()
		select {
		case <-ctx.Done():
			return nil, ctx.Err()
		case <-l.closed:
			return nil, coapNet.ErrListenerIsClosed
		case <-l.wake:
		}
	}
}
func (l *simListener) Close() error { l.once.Do(func() { close(l.closed) }); return nil }
func (l *simListener) FailNext(err error) {
	l.mu.Lock()
	l.fail = append(l.fail, err)
	l.mu.Unlock()
	poke(l.wake)
}
func (l *simListener) Connect(c net.Conn) {
	l.mu.Lock()
	l.queue = append(l.queue, c)
	l.mu.Unlock()
	poke(l.wake)
}

// ---- the world of one server run

type c10Resp struct {
	code    byte
	token   []byte
	payload []byte
	opts    []WOpt
}

func (r c10Resp) String() string {
	return fmt.Sprintf("%d.%02d tok=%x pl=%q", r.code>>5, r.code&31, r.token, r.payload)
}

type c10Client struct {
	id         int
	addr       *net.UDPAddr
	sent       int
	transcript [][]c10Resp // per request: the responses seen in the phase of the request
	exempt     bool
	handshake  func(ctx context.Context) error // dtls: scripted handshake of this client (nil: completes at once)
	// stream / dtls
	sc *SimConn
	pc *SimPacketConn
	rx []byte
}

type c10World struct {
	e        *Env
	kind     string
	dn       *DNet
	srvAddr  *net.UDPAddr
	udpSrv   *udpServer.Server
	tcpSrv   *tcpServer.Server
	dtlsSrv  *dtlsServer.Server
	lis      *simListener
	ticks    []func(now time.Time) bool
	serveRet bool
	serveErr error
	mu       sync.Mutex
	errs     int
	newConns map[string]int // remote -> live connection objects
	maxLive  map[string]int
	handled  map[string][]int // remote -> nonces in handler order
	counts   map[string]int
	conns    map[string][]interface{ Close() error }
	clients  []*c10Client
	label    string
	// keep-alive mode: the servers ping idle peers; well-behaved clients answer every ping at once
	keepAlive       bool
	closedByMonitor map[string]int
	tickBusy        bool
	skippedTicks    int
}

// c10MonitorOpts replaces the (practically switched off) default inactivity monitor of the servers.
type c10MonitorOpts struct {
	UDP  func() udpServer.Option // also used for the dtls server
	DTLS func() dtlsServer.Option
	TCP  func() tcpServer.Option
	// OnTrack (optional) sees every new connection: n = 1 for the first one of that remote address
	OnTrack func(remote string, n int, cc interface{ AddOnClose(func()) })
}

func c10NewWorld(e *Env, kind, label string, nClients int) *c10World {
	return c10NewWorldMon(e, kind, label, nClients, nil)
}

func c10NewWorldMon(e *Env, kind, label string, nClients int, mon *c10MonitorOpts) *c10World {
	return c10NewWorldMonInto(&c10World{}, e, kind, label, nClients, mon)
}

func c10NewWorldMonInto(w *c10World, e *Env, kind, label string, nClients int, mon *c10MonitorOpts) *c10World {
	*w = c10World{e: e, kind: kind, label: label, newConns: map[string]int{}, maxLive: map[string]int{}, handled: map[string][]int{}, counts: map[string]int{},
		conns: map[string][]interface{ Close() error }{}, srvAddr: UDPAddr("10.0.0.100", 5683)}
	router := mux.NewRouter()
	router.DefaultHandle(mux.HandlerFunc(func(rw mux.ResponseWriter, r *mux.Message) {
		if r.Code() == codes.Empty {
			// a reset / empty acknowledgement (e.g. the pong of a keep-alive ping) is handed to the application's
			// handler as well: an application ignores it
			return
		}
		remote := rw.Conn().RemoteAddr().String()
		q, _ := r.Options().Queries()
		n := -1
		for _, s := range q {
			_, _ = fmt.Sscanf(s, "n=%d", &n)
		}
		path, _ := r.Options().Path()
		var body []byte
		if r.Body() != nil {
			body, _ = r.ReadBody()
		}
		w.mu.Lock()
		w.handled[remote] = append(w.handled[remote], n)
		w.counts[remote]++
		cnt := w.counts[remote]
		w.mu.Unlock()
		switch path {
		case "/echo":
			_ = rw.SetResponse(codes.Content, message.TextPlain, bytes.NewReader(append([]byte("echo:"), body...)))
		case "/count":
			_ = rw.SetResponse(codes.Content, message.TextPlain, bytes.NewReader([]byte(fmt.Sprintf("count-%d", cnt))))
		default:
			_ = rw.SetResponse(codes.NotFound, message.TextPlain, nil)
		}
	}))
	seam := c10UDPSeam{mid: 7000, tick: func(f func(now time.Time) bool) {
		w.mu.Lock()
		w.ticks = append(w.ticks, f)
		w.mu.Unlock()
	}}
	onErr := options.WithErrors(func(err error) {
		w.mu.Lock()
		w.errs++
		w.mu.Unlock()
		if debugSites {
			e.Notef("[%s] server error: %v", label, err)
		}
	})
	track := func(remote string, cc interface {
		Close() error
		AddOnClose(func())
	}) {
		w.mu.Lock()
		w.newConns[remote]++
		if w.newConns[remote] > w.maxLive[remote] {
			w.maxLive[remote] = w.newConns[remote]
		}
		w.conns[remote] = append(w.conns[remote], cc)
		nth := len(w.conns[remote])
		w.mu.Unlock()
		cc.AddOnClose(func() {
			w.mu.Lock()
			w.newConns[remote]--
			w.mu.Unlock()
		})
		if mon != nil && mon.OnTrack != nil {
			mon.OnTrack(remote, nth, cc)
		}
	}
	var udpMon udpServer.Option = options.WithInactivityMonitor(100000*time.Second, func(cc *udpClient.Conn) { _ = cc.Close() })
	var dtlsMon dtlsServer.Option = options.WithInactivityMonitor(100000*time.Second, func(cc *udpClient.Conn) { _ = cc.Close() })
	var tcpMon tcpServer.Option = options.WithInactivityMonitor(100000*time.Second, func(cc *tcpClient.Conn) { _ = cc.Close() })
	if mon != nil {
		udpMon, dtlsMon, tcpMon = mon.UDP(), mon.DTLS(), mon.TCP()
	}
	switch kind {
	case "udp":
		e.Real("udp/server.Server (Serve loop, peer table, inactivity ticks, discovery)", "udp/server.Session", "udp/client.Conn", "net.UDPConn (read/write paths, option plumbing)", "mux.Router")
		w.dn = NewDNet(e)
		sock := w.dn.Socket(w.srvAddr, nil)
		sock.WithCM = true
		l := coapNet.NewVerifUDPConn("udp", sock)
		e.OnCleanup(func() { coapNet.VerifForgetUDPConn(l) })
		w.udpSrv = udpServer.New(options.WithMux(router), onErr, seam,
			options.WithOnNewConn(func(cc *udpClient.Conn) { track(cc.RemoteAddr().String(), cc) }),
			udpMon)
		go func() {
			err := w.udpSrv.Serve(l)
			w.mu.Lock()
			w.serveRet, w.serveErr = true, err
			w.mu.Unlock()
		}()
		e.OnCleanup(func() { w.udpSrv.Stop(); _ = l.Close() })
	case "tcp":
		e.Real("tcp/server.Server (accept loop, per-connection goroutines)", "pkg/connections", "tcp/client.Conn", "tcp/client.Session", "mux.Router")
		w.lis = newSimListener()
		w.tcpSrv = tcpServer.New(options.WithMux(router), onErr, seam,
			options.WithOnNewConn(func(cc *tcpClient.Conn) { track(cc.RemoteAddr().String(), cc) }),
			tcpMon,
			options.WithMaxMessageSize(2048))
		go func() {
			err := w.tcpSrv.Serve(w.lis)
			w.mu.Lock()
			w.serveRet, w.serveErr = true, err
			w.mu.Unlock()
		}()
		e.OnCleanup(func() { w.tcpSrv.Stop() })
	case "dtls":
		e.Real("dtls/server.Server (accept loop, handshake with timeout)", "dtls/server.Session", "pkg/connections", "udp/client.Conn", "mux.Router")
		w.lis = newSimListener()
		w.dtlsSrv = dtlsServer.New(options.WithMux(router), onErr, seam,
			options.WithOnNewConn(func(cc *udpClient.Conn) { track(cc.RemoteAddr().String(), cc) }),
			dtlsMon,
			options.WithDTLSHandshakeTimeout(5*time.Second))
		go func() {
			err := w.dtlsSrv.Serve(w.lis)
			w.mu.Lock()
			w.serveRet, w.serveErr = true, err
			w.mu.Unlock()
		}()
		e.OnCleanup(func() { w.dtlsSrv.Stop() })
	}
	for i := 0; i < nClients; i++ {
		c := &c10Client{id: i, addr: UDPAddr("10.0.1."+fmt.Sprint(10+i/2), 40000+i)} // pairs of clients share an IP address
		w.clients = append(w.clients, c)
		w.connect(c)
	}
	e.Wait()
	return w
}

func (w *c10World) connect(c *c10Client) {
	switch w.kind {
	case "udp":
		w.dn.ScriptedPeer(c.addr, func(*Dgram) {})
	case "tcp":
		a, b := NewStream(w.e, &net.TCPAddr{IP: c.addr.IP, Port: c.addr.Port}, TCPAddr("10.0.0.100", 5683))
		c.sc = a
		w.lis.Connect(b)
	case "dtls":
		pc := NewPacketConn(w.e, w.srvAddr, c.addr) // the server's end: local = server, remote = client
		c.pc = pc
		if c.handshake != nil {
			pc.Handshake = c.handshake
		}
		w.lis.Connect(pc)
	}
}

// exchange sends one well-behaved request of client c and returns the responses seen in that phase.
func (w *c10World) exchange(c *c10Client, path string, payload []byte, con bool) []c10Resp {
	n := c.sent
	c.sent++
	tok := []byte{0xc0 | byte(c.id), byte(n)}
	m := &WMsg{Type: TNON, Code: 2, MID: uint16(100 + n), Token: tok, Opts: []WOpt{{Num: OptURIPath, Val: []byte(path[1:])}, {Num: OptURIQuery, Val: []byte(fmt.Sprintf("n=%d", n))}}, Payload: payload}
	if con {
		m.Type = TCON
	}
	var out []c10Resp
	add := func(r *WMsg) {
		if len(r.Token) == 0 && r.Code == 0 {
			return // bare acknowledgement
		}
		out = append(out, c10Resp{r.Code, r.Token, r.Payload, r.Opts})
	}
	switch w.kind {
	case "udp":
		d := w.dn.Inject(c.addr, w.srvAddr, EncodeUDP(m))
		w.dn.Take(d)
		w.dn.Deliver(d)
		w.e.Wait()
		for _, p := range w.dn.PendingList() {
			if p.Dst.String() == c.addr.String() {
				w.dn.Take(p)
				if r, err := DecodeUDP(p.Data); err == nil {
					add(r)
					if r.Type == TCON { // acknowledge confirmable responses
						a := w.dn.Inject(c.addr, w.srvAddr, EncodeUDP(&WMsg{Type: TACK, MID: r.MID}))
						w.dn.Take(a)
						w.dn.Deliver(a)
					}
				}
			}
		}
		w.e.Wait()
	case "tcp":
		c.sc.peer.InjectIn(EncodeTCP(m))
		c.sc.peer.ReleaseIn(1 << 30)
		w.e.Wait()
		c.rx = append(c.rx, c.sc.peer.TakeOut()...)
		for len(c.rx) > 0 {
			r, k, err := DecodeTCP(c.rx)
			if err != nil || k == 0 {
				break
			}
			c.rx = c.rx[k:]
			if r.Code >= 0xe0 { // signalling (the server's CSM, pings)
				if r.Code == 0xe2 {
					c.sc.peer.InjectIn(EncodeTCP(&WMsg{Code: 0xe3, Token: r.Token}))
					c.sc.peer.ReleaseIn(1 << 30)
				}
				continue
			}
			add(r)
		}
	case "dtls":
		c.pc.Deliver(EncodeUDP(m))
		w.e.Wait()
		for _, b := range c.pc.TakeOut() {
			if r, err := DecodeUDP(b); err == nil {
				add(r)
				if r.Type == TCON {
					c.pc.Deliver(EncodeUDP(&WMsg{Type: TACK, MID: r.MID}))
				}
			}
		}
		w.e.Wait()
	}
	sort.Slice(out, func(i, j int) bool { return out[i].String() < out[j].String() })
	c.transcript = append(c.transcript, out)
	return out
}

// answerPings: every well-behaved client answers the keep-alive pings the server has sent it, at once.
func (w *c10World) answerPings() {
	any := false
	for _, c := range w.clients {
		switch w.kind {
		case "udp":
			for _, p := range w.dn.PendingList() {
				if p.Dst.String() != c.addr.String() {
					continue
				}
				if r, err := DecodeUDP(p.Data); err == nil && r.Type == TCON && r.Code == 0 {
					w.dn.Take(p)
					a := w.dn.Inject(c.addr, w.srvAddr, EncodeUDP(&WMsg{Type: TRST, MID: r.MID}))
					w.dn.Take(a)
					w.dn.Deliver(a)
					any = true
					w.e.Probe("keepalive.pingAnsweredByClient")
				}
			}
		case "dtls":
			if c.pc == nil {
				continue
			}
			for _, b := range c.pc.TakeOut() {
				if r, err := DecodeUDP(b); err == nil && r.Type == TCON && r.Code == 0 {
					c.pc.Deliver(EncodeUDP(&WMsg{Type: TRST, MID: r.MID}))
					any = true
					w.e.Probe("keepalive.pingAnsweredByClient")
				}
			}
		case "tcp":
			if c.sc == nil {
				continue
			}
			c.rx = append(c.rx, c.sc.peer.TakeOut()...)
			rest := c.rx[:0:0]
			buf := c.rx
			for len(buf) > 0 {
				r, k, err := DecodeTCP(buf)
				if err != nil || k == 0 {
					break
				}
				if r.Code == 0xe2 {
					c.sc.peer.InjectIn(EncodeTCP(&WMsg{Code: 0xe3, Token: r.Token}))
					c.sc.peer.ReleaseIn(1 << 30)
					any = true
					w.e.Probe("keepalive.pingAnsweredByClient")
				} else {
					rest = append(rest, buf[:k]...)
				}
				buf = buf[k:]
			}
			c.rx = append(rest, buf...)
		}
	}
	if any {
		w.e.Wait()
	}
}

// tick: the servers run their housekeeping on ONE goroutine (pkg/runner/periodic): a tick that finds the previous
// one still running does not happen.
func (w *c10World) tick(now time.Time) {
	w.mu.Lock()
	fs := append([]func(now time.Time) bool(nil), w.ticks...)
	busy := w.tickBusy
	if !busy {
		w.tickBusy = true
	}
	w.mu.Unlock()
	if busy {
		w.e.Probe("housekeeping.tickSkippedPreviousStillRunning")
		w.skippedTicks++
		return
	}
	go func() {
		for _, f := range fs {
			f(now)
		}
		w.mu.Lock()
		w.tickBusy = false
		w.mu.Unlock()
	}()
}

func (w *c10World) served() bool { w.mu.Lock(); defer w.mu.Unlock(); return !w.serveRet }

// one step of the well-behaved script (recorded in the first world, replayed in the twin)
type c10Step struct {
	kind    int // 0 request, 1 tick, 2 server closes the peer's connection, 3 reconnect (stream/dtls)
	client  int
	path    string
	payload []byte
	con     bool
	dt      time.Duration
}

func (w *c10World) apply(s c10Step) {
	e := w.e
	switch s.kind {
	case 0:
		c := w.clients[s.client]
		resps := w.exchange(c, s.path, s.payload, s.con)
		e.Logf("[%s] client %d request #%d %s -> %v", w.label, c.id, c.sent-1, s.path, resps)
		// the handler counts requests per remote address: a well-behaved client's k-th request sees exactly k
		if s.path == "/count" && len(resps) == 1 && string(resps[0].payload) != fmt.Sprintf("count-%d", c.sent) {
			e.Violate("C10.R4", "peer-state-mixed:"+w.kind, "[%s] client %d (%s): request #%d answered %q, its own per-peer counter is %d - another peer's traffic was attributed to it (or its own to another)", w.label, c.id, c.addr, c.sent-1, resps[0].payload, c.sent)
		}
		if len(resps) != 1 {
			e.Violate("C10.R3", "request-not-answered-once:"+w.kind, "[%s] client %d request #%d %s got %d responses: %v", w.label, c.id, c.sent-1, s.path, len(resps), resps)
		}
	case 1:
		e.Sleep(s.dt)
		w.tick(time.Now())
		e.Wait()
		e.Logf("[%s] advance %v + tick", w.label, s.dt)
		if w.keepAlive {
			w.answerPings()
		}
	case 2:
		c := w.clients[s.client]
		remote := c.addr.String()
		w.mu.Lock()
		cs := w.conns[remote]
		w.mu.Unlock()
		if len(cs) > 0 {
			cc := cs[len(cs)-1]
			go func() { _ = cc.Close() }()
			e.Wait()
			e.Logf("[%s] server closes the connection of client %d", w.label, c.id)
			if w.kind != "udp" {
				// a stream / dtls client has to connect again
				w.connect(c)
				e.Wait()
			}
		}
	}
}

func c10Twin(e *Env, kind string) {
	t := e.Tape
	nClients := 2 + t.Choose(3)
	nAdv := 1 + t.Choose(3)
	// one run in three: the server guards its connections with keep-alive (period 4 s, 2 retries); the well-behaved
	// clients answer every ping, the adversaries none
	keepAlive := t.Chance(1, 3)
	mkWorld := func(label string) *c10World {
		if !keepAlive {
			return c10NewWorld(e, kind, label, nClients)
		}
		closedBy := map[string]int{}
		var wref *c10World
		onU := func(cc *udpClient.Conn) {
			wref.mu.Lock()
			closedBy[cc.RemoteAddr().String()]++
			wref.mu.Unlock()
			_ = cc.Close()
		}
		onT := func(cc *tcpClient.Conn) {
			wref.mu.Lock()
			closedBy[cc.RemoteAddr().String()]++
			wref.mu.Unlock()
			_ = cc.Close()
		}
		mon := &c10MonitorOpts{
			UDP:  func() udpServer.Option { return options.WithKeepAlive(2, 12*time.Second, onU) },
			DTLS: func() dtlsServer.Option { return options.WithKeepAlive(2, 12*time.Second, onU) },
			TCP:  func() tcpServer.Option { return options.WithKeepAlive(2, 12*time.Second, onT) },
		}
		wref = &c10World{}
		w := c10NewWorldMonInto(wref, e, kind, label, nClients, mon)
		w.keepAlive, w.closedByMonitor = true, closedBy
		return w
	}
	w1 := mkWorld("run")
	if keepAlive {
		e.Probe("server.keepAliveMode")
	}
	e.Logf("cfg server=%s clients=%d adversaries=%d keep-alive=%v", kind, nClients, nAdv, keepAlive)
	// adversaries
	type adversary struct {
		addr *net.UDPAddr
		sc   *SimConn
		pc   *SimPacketConn
	}
	advs := make([]*adversary, nAdv)
	for i := range advs {
		a := &adversary{addr: UDPAddr("10.66.0."+fmt.Sprint(1+i), 6000+i)}
		advs[i] = a
		switch kind {
		case "udp":
			w1.dn.ScriptedPeer(a.addr, func(*Dgram) {})
		case "tcp":
			x, y := NewStream(e, &net.TCPAddr{IP: a.addr.IP, Port: a.addr.Port}, TCPAddr("10.0.0.100", 5683))
			a.sc = x
			if t.Chance(1, 3) {
				// a TLS peer that opens the stream and never sends its ClientHello: the handshake of this connection
				// ends only when the connection's context does (Stop has to reach it)
				e.Fault("adv.handshake.stall")
				w1.lis.Connect(&SimTLSConn{SimConn: y, Handshake: func(ctx context.Context) error {
					select {
					case <-ctx.Done():
						return ctx.Err()
					case <-y.ClosedCh():
						return net.ErrClosed
					}
				}})
			} else {
				w1.lis.Connect(y)
			}
		case "dtls":
			a.pc = NewPacketConn(e, w1.srvAddr, a.addr)
			mode := t.Choose(3) // 0 handshake ok, 1 fails, 2 stalls until its context ends
			pc := a.pc
			a.pc.Handshake = func(ctx context.Context) error {
				switch mode {
				case 1:
					return fmt.Errorf("handshake failure")
				case 2:
					select {
					case <-ctx.Done():
						return ctx.Err()
					case <-pc.ClosedCh():
						return net.ErrClosed
					}
				}
				return nil
			}
			if mode != 0 {
				e.Fault("adv.handshake." + []string{"ok", "fail", "stall"}[mode])
			}
			w1.lis.Connect(a.pc)
		}
	}
	e.Wait()

	var script []c10Step
	advEvents := 0
	advSinceGood := false
	garbage := func() []byte {
		n := 1 + t.Choose(40)
		b := make([]byte, n)
		for i := range b {
			b[i] = byte(t.Choose(256))
		}
		return b
	}
	advSend := func(a *adversary) {
		advEvents++
		advSinceGood = true
		var raw []byte
		kindA := t.Choose(9)
		label := ""
		switch kindA {
		case 8:
			// perfectly well-formed, just unusual: a request with many options (more than the decoder's first guess)
			m := &WMsg{Type: TCON, Code: 1, MID: uint16(t.Choose(65536)), Token: []byte{0x68}, Opts: []WOpt{{Num: OptURIPath, Val: []byte("count")}}}
			for k := 0; k < 16+t.Choose(30); k++ {
				m.Opts = append(m.Opts, WOpt{Num: OptURIQuery, Val: []byte(fmt.Sprintf("q%d=%d", k, k))})
			}
			raw, label = EncodeUDP(m), "valid request with many options"
			if kind == "tcp" {
				raw = EncodeTCP(m)
			}
		case 0:
			raw, label = garbage(), "arbitrary bytes"
		case 1:
			full := &WMsg{Type: TCON, Code: 1, MID: uint16(t.Choose(65536)), Token: []byte{9, 9, 9}, Opts: []WOpt{{Num: OptURIPath, Val: []byte("count")}}, Payload: []byte("xxxxxxxx")}
			raw = EncodeUDP(full)
			if kind == "tcp" {
				raw = EncodeTCP(full)
			}
			raw, label = raw[:1+t.Choose(len(raw)-1)], "truncated message"
		case 2:
			big := &WMsg{Type: TNON, Code: 2, MID: 5, Token: []byte{1}, Payload: bytes.Repeat([]byte{0x41}, 3000)}
			raw, label = EncodeUDP(big), "oversize message"
			if kind == "tcp" {
				raw = EncodeTCP(big)
			}
		case 3:
			m := &WMsg{Type: TACK, Code: 0x45, MID: uint16(t.Choose(65536)), Token: []byte{0x77, byte(t.Choose(256))}, Payload: []byte("unsolicited")}
			raw, label = EncodeUDP(m), "unsolicited response with an unknown token"
			if kind == "tcp" {
				raw = EncodeTCP(m)
			}
		case 4:
			m := &WMsg{Type: TRST, Code: 0, MID: uint16(t.Choose(65536))}
			raw, label = EncodeUDP(m), "unsolicited RST"
			if kind == "tcp" {
				raw, label = EncodeTCP(&WMsg{Code: 0xe5, Token: []byte{1}}), "Abort signal"
			}
		case 5:
			m := &WMsg{Type: TCON, Code: 2, MID: uint16(t.Choose(65536)), Token: []byte{0x66}, Opts: []WOpt{{Num: OptURIPath, Val: []byte("count")}, {Num: OptURIQuery, Val: []byte("n=0")}}}
			raw, label = EncodeUDP(m), "valid request (own counter)"
			if kind == "tcp" {
				raw = EncodeTCP(m)
			}
		case 6:
			raw, label = []byte{0x40}, "one byte"
		default:
			m := &WMsg{Type: TCON, Code: 0, MID: uint16(t.Choose(65536))}
			raw, label = EncodeUDP(m), "ping"
			if kind == "tcp" {
				raw = EncodeTCP(&WMsg{Code: 0xe2, Token: []byte{2}})
			}
		}
		e.Fault("adv." + label)
		e.Logf("adversary %s sends %s [%d bytes]", a.addr, label, len(raw))
		switch kind {
		case "udp":
			d := w1.dn.Inject(a.addr, w1.srvAddr, raw)
			w1.dn.Take(d)
			w1.dn.Deliver(d)
		case "tcp":
			a.sc.peer.InjectIn(raw)
			a.sc.peer.ReleaseIn(1 + t.Choose(len(raw)))
			a.sc.peer.TakeOut()
		case "dtls":
			a.pc.Deliver(raw)
			a.pc.TakeOut()
		}
		e.Wait()
		if kind == "udp" {
			// whatever the server answers to the adversary is drained
			for _, p := range w1.dn.PendingList() {
				if p.Dst.String() == a.addr.String() {
					w1.dn.Take(p)
				}
			}
		}
	}

	nSteps := 6 + t.Choose(25)
	for i := 0; i < nSteps && e.Budget(); i++ {
		switch t.Weighted(6, 6, 1, 1, 1) {
		case 0:
			c := t.Choose(nClients)
			s := c10Step{kind: 0, client: c, path: []string{"/count", "/echo", "/missing"}[t.Choose(3)], payload: []byte(fmt.Sprintf("p%d", i)), con: t.Chance(1, 2)}
			if advSinceGood {
				e.NonTrivial()
				e.Probe("request.afterAdversarialEvent")
				advSinceGood = false
			}
			script = append(script, s)
			w1.apply(s)
		case 1:
			advSend(advs[t.Choose(nAdv)])
		case 2:
			s := c10Step{kind: 1, dt: []time.Duration{time.Second, 4 * time.Second, 20 * time.Second}[t.Choose(3)]}
			script = append(script, s)
			w1.apply(s)
		case 3:
			s := c10Step{kind: 2, client: t.Choose(nClients)}
			script = append(script, s)
			e.Fault("server.closesPeer")
			w1.apply(s)
		default:
			// an adversarial stream peer closes or resets abruptly
			a := advs[t.Choose(nAdv)]
			advEvents++
			advSinceGood = true
			if kind != "udp" && t.Chance(1, 3) {
				// a crowd of connect-and-stall peers has exhausted the descriptor table: accept fails once
				errno := []syscall.Errno{syscall.EMFILE, syscall.ENFILE, syscall.ENOBUFS, syscall.ECONNABORTED}[t.Choose(4)]
				e.Fault("listener.transientAcceptError")
				e.Logf("accept fails once with %v", errno)
				w1.lis.FailNext(&net.OpError{Op: "accept", Net: "tcp", Err: errno})
				e.Wait()
				break
			}
			switch kind {
			case "tcp":
				e.Fault("adv.reset")
				e.Logf("adversary %s resets its stream", a.addr)
				a.sc.peer.Reset()
			case "dtls":
				e.Fault("adv.close")
				e.Logf("adversary %s disappears", a.addr)
				a.pc.ResetConn()
			}
			e.Wait()
		}
		if !w1.served() {
			e.Violate("C10.R1", "serve-returned:"+kind, "Serve returned (%v) while the server was supposed to keep serving", w1.serveErr)
			return
		}
	}
	// R2: liveness probe - a brand-new well-behaved client is served
	probe := &c10Client{id: 9, addr: UDPAddr("10.0.1.99", 49999)}
	w1.clients = append(w1.clients, probe)
	w1.connect(probe)
	e.Wait()
	pr := w1.exchange(probe, "/echo", []byte("alive"), true)
	if len(pr) != 1 || string(pr[0].payload) != "echo:alive" {
		e.Violate("C10.R2", "new-client-not-served:"+kind, "after %d adversarial events a new well-behaved client got %v instead of its echo", advEvents, pr)
	}
	// R4: one live connection object per peer at a time; arrival order
	w1.mu.Lock()
	for remote, n := range w1.maxLive {
		if n > 1 {
			e.Violate("C10.R4", "two-live-connections-for-one-peer:"+kind, "peer %s had %d live connection objects at the same time", remote, n)
		}
	}
	for remote, ns := range w1.handled {
		last := -1
		for _, n := range ns {
			if n >= 0 && n < last && bytes.HasPrefix([]byte(remote), []byte("10.0.1.")) {
				e.Violate("C10.R4", "handled-out-of-arrival-order:"+kind, "peer %s: request n=%d handled after n=%d", remote, n, last)
			}
			if n > last {
				last = n
			}
		}
	}
	w1.mu.Unlock()

	// ---- the twin: same well-behaved script, fresh server, no adversaries
	if keepAlive {
		// a well-behaved client answered every ping: the monitor has no reason to give up on it, whatever the others do
		w1.mu.Lock()
		for _, c := range w1.clients {
			if n := w1.closedByMonitor[c.addr.String()]; n > 0 && !c.exempt {
				e.Violate("C10.R7", "answering-peer-closed-by-keep-alive:"+kind, "client %d (%s) answered every keep-alive ping at once and was reported inactive %d times while %d adversarial peers were around", c.id, c.addr, n, nAdv)
			}
		}
		w1.mu.Unlock()
	}
	w2 := mkWorld("twin")
	for _, s := range script {
		w2.apply(s)
	}
	for i := 0; i < nClients; i++ {
		a, b := w1.clients[i].transcript, w2.clients[i].transcript
		if len(a) != len(b) {
			e.Violate("C10.R3", "transcript-length-differs:"+kind, "client %d: %d exchanges with adversaries, %d without", i, len(a), len(b))
			continue
		}
		for k := range a {
			if fmt.Sprint(a[k]) != fmt.Sprint(b[k]) {
				e.Violate("C10.R3", "isolation-broken:"+kind, "client %d request #%d: got %v with adversaries around, %v without them", i, k, a[k], b[k])
				break
			}
		}
	}
	// Stop: Serve returns
	for _, w := range []*c10World{w1, w2} {
		switch kind {
		case "udp":
			w.udpSrv.Stop()
			w.udpSrv.Stop()
		case "tcp":
			// stream connections end when their peers go away
			for _, c := range w.clients {
				if c.sc != nil {
					c.sc.peer.Reset()
				}
			}
			w.tcpSrv.Stop()
			w.tcpSrv.Stop()
		case "dtls":
			for _, c := range w.clients {
				if c.pc != nil {
					c.pc.ResetConn()
				}
			}
			w.dtlsSrv.Stop()
			w.dtlsSrv.Stop()
		}
	}
	for _, a := range advs {
		if a.sc != nil {
			a.sc.peer.Reset()
		}
		if a.pc != nil {
			a.pc.ResetConn()
		}
	}
	e.Sleep(10 * time.Second)
	for _, w := range []*c10World{w1, w2} {
		if w.served() {
			e.Violate("C10.R5", "serve-did-not-return-after-stop:"+kind, "[%s] Serve has not returned 10 s after Stop", w.label)
		}
	}
	if kind == "udp" {
		for _, w := range []*c10World{w1, w2} {
			c, mr, mh := w.udpSrv.VerifSizes()
			if c != 0 || mr != 0 || mh != 0 {
				e.Violate("C10.R6", "server-tables-not-empty-after-stop", "[%s] after Stop: %d peers, %d multicast requests, %d multicast handlers", w.label, c, mr, mh)
			}
		}
	}
}

// ---- discovery: responses reach only the receiver registered for their token, each with the connection of its sender
func c10Discovery(e *Env) {
	t := e.Tape
	w := c10NewWorld(e, "udp", "run", 0)
	nResp := t.Choose(5)
	nDisc := 1 + t.Choose(2)
	e.Logf("cfg discovery: %d discoveries, %d responders", nDisc, nResp)
	type disc struct {
		token     []byte
		got       []string // "remote|payload"
		done      bool
		sendFails bool
		ctx       context.Context
		cancel    context.CancelFunc
	}
	discs := make([]*disc, nDisc)
	group := UDPAddr("224.0.1.187", 5683)
	responders := make([]*net.UDPAddr, nResp)
	seen := map[string][]*WMsg{}
	for i := range responders {
		a := UDPAddr("10.0.2."+fmt.Sprint(1+i), 5683)
		responders[i] = a
		w.dn.ScriptedPeer(a, func(d *Dgram) {})
	}
	// multicast: the group address is a scripted "peer" that fans out to the responders
	w.dn.ScriptedPeer(group, func(d *Dgram) {
		if m, err := DecodeUDP(d.Data); err == nil {
			seen[string(m.Token)] = append(seen[string(m.Token)], m)
		}
	})
	for i := range discs {
		d := &disc{}
		discs[i] = d
		d.ctx, d.cancel = context.WithTimeout(context.Background(), 20*time.Second+time.Duration(i)*time.Millisecond)
		e.OnCleanup(d.cancel)
		// the send of a discovery may fail (interface down, network unreachable): that discovery is over, and its
		// receiver must be gone with it
		d.sendFails = t.Chance(1, 4)
		if d.sendFails {
			e.Fault("discovery.sendFails")
			w.dn.WriteErr = func(src, dst *net.UDPAddr) error {
				if dst.IP.IsMulticast() {
					return &net.OpError{Op: "write", Net: "udp", Err: syscall.ENETUNREACH}
				}
				return nil
			}
		} else {
			w.dn.WriteErr = nil
		}
		go func() {
			req := pool.NewMessage(d.ctx)
			tok := message.Token{0xd1, byte(i)}
			d.token = tok
			_ = req.SetupGet("/oic/res", tok)
			req.SetMessageID(int32(500 + i))
			req.SetType(message.NonConfirmable)
			_ = w.udpSrv.DiscoveryRequest(req, "224.0.1.187:5683", func(cc *udpClient.Conn, resp *pool.Message) {
				body, _ := resp.ReadBody()
				w.mu.Lock()
				d.got = append(d.got, cc.RemoteAddr().String()+"|"+string(body))
				w.mu.Unlock()
				if !bytes.Equal(resp.Token(), tok) {
					e.Violate("C10.R5", "discovery-foreign-token", "receiver of token %x got a response with token %x", tok, resp.Token())
				}
				if c := resp.Code(); c >= codes.GET && c <= codes.DELETE {
					e.Violate("C10.R5", "request-handed-to-discovery-receiver", "receiver of token %x got a request (%v) of %s: tokens are scoped per direction, it is a request for the application's handler", tok, c, cc.RemoteAddr())
				}
			}, coapNet.WithAnyMulticastInterface())
			w.mu.Lock()
			d.done = true
			w.mu.Unlock()
		}()
		e.Wait()
	}
	w.dn.WriteErr = nil
	for di, d := range discs {
		w.mu.Lock()
		done := d.done
		w.mu.Unlock()
		if d.sendFails && !done {
			e.Violate("C10.R5", "discovery-did-not-return", "discovery %d: the send failed but the call has not returned", di)
		}
	}
	// deliver the multicast requests (to the scripted group)
	for _, p := range w.dn.PendingList() {
		w.dn.Take(p)
		w.dn.Deliver(p)
	}
	e.Wait()
	// responders answer in tape order; plus foreign-token answers
	want := map[int][]string{}
	type answer struct {
		from   *net.UDPAddr
		di     int
		forged bool
	}
	var answers []answer
	for ri, r := range responders {
		for di := range discs {
			if t.Chance(3, 4) {
				answers = append(answers, answer{from: r, di: di})
			}
		}
		if t.Chance(1, 3) {
			answers = append(answers, answer{from: r, di: ri % nDisc, forged: true})
		}
	}
	// an application error that must stay harmless: a second discovery re-uses the token of a running one
	dupAt, dupOf := -1, 0
	if t.Chance(1, 3) {
		dupAt, dupOf = t.Choose(len(answers)+1), t.Choose(nDisc)
	}
	dupRefused, dupDelivered := false, 0
	issueDup := func() {
		e.Fault("discovery.duplicateToken")
		e.Logf("application issues a second discovery with the token of discovery %d", dupOf)
		ctx, cancel := context.WithTimeout(context.Background(), 3*time.Second)
		e.OnCleanup(cancel)
		returned := false
		var err error
		go func() {
			req := pool.NewMessage(ctx)
			_ = req.SetupGet("/oic/res", message.Token(discs[dupOf].token))
			req.SetMessageID(int32(600))
			req.SetType(message.NonConfirmable)
			er := w.udpSrv.DiscoveryRequest(req, "224.0.1.187:5683", func(cc *udpClient.Conn, resp *pool.Message) {
				w.mu.Lock()
				dupDelivered++
				w.mu.Unlock()
			}, coapNet.WithAnyMulticastInterface())
			w.mu.Lock()
			returned, err = true, er
			w.mu.Unlock()
		}()
		e.Wait()
		w.mu.Lock()
		dupRefused = returned && err != nil
		w.mu.Unlock()
		if dupRefused {
			e.Probe("discovery.duplicateTokenRefused")
		}
		for _, p := range w.dn.PendingList() {
			w.dn.Take(p)
			w.dn.Deliver(p)
		}
		e.Wait()
	}
	delivered := 0
	for len(answers) > 0 {
		if delivered == dupAt {
			issueDup()
		}
		delivered++
		k := t.Choose(len(answers))
		a := answers[k]
		answers = append(answers[:k], answers[k+1:]...)
		tok := discs[a.di].token
		pl := fmt.Sprintf("res-from-%s-for-%d", a.from.IP, a.di)
		code := byte(0x45)
		if a.forged {
			tok = []byte{0xee, 0xee, byte(a.di)}
			pl = "forged"
			e.Fault("discovery.foreignToken")
			switch t.Choose(3) {
			case 1: // the one 8-byte token with the same CRC-64 as the discovery's (short) token
				if ct := collidingToken(discs[a.di].token); ct != nil {
					tok = ct
					e.Probe("discovery.tokenWithTheSameChecksum")
				}
			case 2: // not a response at all: a request of that peer which happens to carry the discovery's token bytes
				tok, code, pl = discs[a.di].token, 1, ""
				e.Probe("discovery.requestWithTheDiscoveryToken")
			}
		} else if !discs[a.di].sendFails {
			want[a.di] = append(want[a.di], a.from.String()+"|"+pl)
		}
		d := w.dn.Inject(a.from, w.srvAddr, EncodeUDP(&WMsg{Type: TNON, Code: code, MID: uint16(9000 + len(answers)), Token: tok, Payload: []byte(pl)}))
		w.dn.Take(d)
		w.dn.Deliver(d)
		e.Wait()
		e.Logf("responder %s answers discovery %d (forged=%v)", a.from, a.di, a.forged)
		e.NonTrivial()
	}
	if delivered == dupAt {
		issueDup()
	}
	e.Sleep(25 * time.Second)
	w.mu.Lock()
	if dupRefused && dupDelivered > 0 {
		e.Violate("C10.R5", "discovery-response-to-refused-receiver", "the receiver of a discovery that was refused (token in use) got %d responses", dupDelivered)
	}
	for di, d := range discs {
		if dupAt >= 0 && di == dupOf && !dupRefused {
			continue // the library accepted a second receiver for the token: who is "the registered receiver" is open
		}
		if !d.done {
			e.Violate("C10.R5", "discovery-did-not-return", "discovery %d has not returned after its deadline", di)
		}
		got := append([]string(nil), d.got...)
		exp := append([]string(nil), want[di]...)
		sort.Strings(got)
		sort.Strings(exp)
		if fmt.Sprint(got) != fmt.Sprint(exp) {
			e.Violate("C10.R5", "discovery-responses-differ", "discovery %d (token %x): receiver got %v, the responders sent %v", di, d.token, got, exp)
		}
	}
	w.mu.Unlock()
	c, mr, mh := w.udpSrv.VerifSizes()
	if mr != 0 || mh != 0 {
		e.Violate("C10.R6", "multicast-tables-not-empty", "after every discovery returned: %d multicast requests, %d multicast handlers (peers %d)", mr, mh, c)
	}
	w.udpSrv.Stop()
	e.Sleep(5 * time.Second)
	if w.served() {
		e.Violate("C10.R5", "serve-did-not-return-after-stop:udp", "Serve has not returned 5 s after Stop")
	}
}
