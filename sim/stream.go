package sim

import (
	"context"
	"errors"
	"io"
	"net"
	"os"
	"sync"
	"syscall"
	"time"

	"github.com/plgd-dev/go-coap/v3/message/pool"
	"github.com/plgd-dev/go-coap/v3/options"
	"github.com/plgd-dev/go-coap/v3/tcp"
	tcpClient "github.com/plgd-dev/go-coap/v3/tcp/client"
)

// ---------------------------------------------------------------- simulated byte stream

// halfPipe is one direction of a simulated byte stream. Bytes written by the
// sender sit in queued until the simulator releases them to the reader in
// chunks of its choosing (segmentation is the simulator's decision).
type halfPipe struct {
	mu      sync.Mutex
	queued  []byte
	ready   []byte
	eof     bool // sender closed (FIN): reader gets EOF after the data
	reset   bool // connection reset: reader and writer get ECONNRESET
	limit   int  // >0: bounded send buffer; Write blocks while queued+ready >= limit
	rwake   chan struct{}
	wwake   chan struct{}
	Written int
}

func newHalf() *halfPipe {
	return &halfPipe{rwake: make(chan struct{}, 1), wwake: make(chan struct{}, 1)}
}

func poke(c chan struct{}) {
	select {
	case c <- struct{}{}:
	default:
	}
}

// SimConn is one end of a simulated stream; it implements net.Conn.
// readDeadline gives the simulated sockets a working SetReadDeadline (fake clock): a blocked read is woken when the
// deadline changes or passes and fails with os.ErrDeadlineExceeded, as a kernel socket's does.
type readDeadline struct {
	mu sync.Mutex
	t  time.Time
	ch chan struct{} // closed when the deadline changes
}

func (d *readDeadline) set(t time.Time) {
	d.mu.Lock()
	d.t = t
	if d.ch != nil {
		close(d.ch)
	}
	d.ch = make(chan struct{})
	d.mu.Unlock()
}

// state: expired now? plus what to wait on besides data (change of the deadline, its passing)
func (d *readDeadline) state() (expired bool, changed <-chan struct{}, timer <-chan time.Time) {
	d.mu.Lock()
	defer d.mu.Unlock()
	if d.ch == nil {
		d.ch = make(chan struct{})
	}
	if !d.t.IsZero() {
		if !time.Now().Before(d.t) {
			return true, d.ch, nil
		}
		timer = time.After(time.Until(d.t))
	}
	return false, d.ch, timer
}

type SimConn struct {
	in, out      *halfPipe
	laddr, raddr net.Addr
	closed       chan struct{}
	once         sync.Once
	peer         *SimConn
	CloseCount   int
	WriteErr     error // injected: every Write fails with it
	// EOFWithData: the Read that takes the last bytes before the peer's FIN returns them together with io.EOF
	EOFWithData bool
	rd          readDeadline
	wd          readDeadline // the write deadline (same mechanics)
}

// NewStream creates a connected pair of simulated stream ends.
func NewStream(e *Env, aAddr, bAddr *net.TCPAddr) (*SimConn, *SimConn) {
	e.Stub("kernel TCP (netsim stream pipe)")
	ab, ba := newHalf(), newHalf()
	a := &SimConn{in: ba, out: ab, laddr: aAddr, raddr: bAddr, closed: make(chan struct{})}
	b := &SimConn{in: ab, out: ba, laddr: bAddr, raddr: aAddr, closed: make(chan struct{})}
	a.peer, b.peer = b, a
	return a, b
}

func TCPAddr(ip string, port int) *net.TCPAddr {
	return &net.TCPAddr{IP: net.ParseIP(ip).To4(), Port: port}
}

func (c *SimConn) isClosed() bool {
	select {
	case <-c.closed:
		return true
	default:
		return false
	}
}

func (c *SimConn) Read(b []byte) (int, error) {
	for {
		if c.isClosed() {
			return 0, net.ErrClosed
		}
		if len(b) == 0 {
			return 0, nil // as a socket: at once, whatever there is to read
		}
		h := c.in
		h.mu.Lock()
		if h.reset {
			h.mu.Unlock()
			return 0, &net.OpError{Op: "read", Net: "tcp", Err: syscall.ECONNRESET}
		}
		if len(h.ready) > 0 {
			n := copy(b, h.ready)
			h.ready = h.ready[n:]
			// io.Reader: a Read may return the last bytes together with io.EOF (crypto/tls does when the final record
			// and the close_notify alert arrive together)
			last := c.EOFWithData && h.eof && len(h.ready) == 0 && len(h.queued) == 0
			h.mu.Unlock()
			poke(h.wwake)
			if last {
				return n, io.EOF
			}
			return n, nil
		}
		if h.eof && len(h.queued) == 0 {
			h.mu.Unlock()
			return 0, io.EOF
		}
		h.mu.Unlock()
		expired, changed, timer := c.rd.state()
		if expired {
			return 0, os.ErrDeadlineExceeded
		}
		select {
		case <-h.rwake:
		case <-c.closed:
		case <-changed:
		case <-timer:
		}
	}
}

func (c *SimConn) Write(b []byte) (int, error) {
	h := c.out
	for {
		if c.isClosed() {
			return 0, net.ErrClosed
		}
		if c.WriteErr != nil {
			return 0, c.WriteErr
		}
		h.mu.Lock()
		if h.reset {
			h.mu.Unlock()
			return 0, &net.OpError{Op: "write", Net: "tcp", Err: syscall.EPIPE}
		}
		if h.eof {
			h.mu.Unlock()
			return 0, &net.OpError{Op: "write", Net: "tcp", Err: syscall.EPIPE}
		}
		if h.limit > 0 && len(h.queued)+len(h.ready) >= h.limit {
			h.mu.Unlock()
			expired, changed, timer := c.wd.state()
			if expired {
				return 0, os.ErrDeadlineExceeded
			}
			select {
			case <-h.wwake:
			case <-c.closed:
			case <-changed:
			case <-timer:
			}
			continue
		}
		h.queued = append(h.queued, b...)
		h.Written += len(b)
		h.mu.Unlock()
		return len(b), nil
	}
}

func (c *SimConn) Close() error {
	c.once.Do(func() {
		close(c.closed)
		// FIN towards the peer
		c.out.mu.Lock()
		c.out.eof = true
		c.out.mu.Unlock()
		poke(c.out.rwake)
		poke(c.in.wwake)
	})
	c.out.mu.Lock()
	c.CloseCount++
	c.out.mu.Unlock()
	return nil
}

// (EOFWithData: see Read)

// ClosedCh is closed when this end has been closed locally.
func (c *SimConn) ClosedCh() <-chan struct{} { return c.closed }

func (c *SimConn) LocalAddr() net.Addr                { return c.laddr }
func (c *SimConn) RemoteAddr() net.Addr               { return c.raddr }
func (c *SimConn) SetDeadline(t time.Time) error      { c.rd.set(t); c.wd.set(t); return nil }
func (c *SimConn) SetReadDeadline(t time.Time) error  { c.rd.set(t); return nil }
func (c *SimConn) SetWriteDeadline(t time.Time) error { c.wd.set(t); return nil }

// --- simulator-side controls (simulator goroutine only)

// PendingIn is the number of bytes written by the peer and not yet released to this end's reader.
func (c *SimConn) PendingIn() int { c.in.mu.Lock(); defer c.in.mu.Unlock(); return len(c.in.queued) }

// ReleaseIn hands the next n queued bytes to this end's reader.
func (c *SimConn) ReleaseIn(n int) int {
	h := c.in
	h.mu.Lock()
	if n > len(h.queued) {
		n = len(h.queued)
	}
	h.ready = append(h.ready, h.queued[:n]...)
	h.queued = h.queued[n:]
	h.mu.Unlock()
	poke(h.rwake)
	return n
}

// TakeOut removes and returns everything this end has written and that was not yet released (scripted peer reads the wire).
func (c *SimConn) TakeOut() []byte {
	h := c.out
	h.mu.Lock()
	b := h.queued
	h.queued = nil
	h.mu.Unlock()
	poke(h.wwake)
	return b
}

// InjectIn appends bytes to the stream towards this end (as if the peer had written them).
func (c *SimConn) InjectIn(b []byte) {
	h := c.in
	h.mu.Lock()
	h.queued = append(h.queued, b...)
	h.mu.Unlock()
}

// PeerFIN: the (scripted) peer closes its sending direction; the reader sees EOF after the data.
func (c *SimConn) PeerFIN() {
	c.in.mu.Lock()
	c.in.eof = true
	c.in.mu.Unlock()
	poke(c.in.rwake)
}

// Reset injects a connection reset in both directions.
func (c *SimConn) Reset() {
	for _, h := range []*halfPipe{c.in, c.out} {
		h.mu.Lock()
		h.reset = true
		h.mu.Unlock()
		poke(h.rwake)
		poke(h.wwake)
	}
}

// LimitOut bounds this end's send buffer (a peer that stopped reading stalls the writer).
func (c *SimConn) LimitOut(n int) { c.out.mu.Lock(); c.out.limit = n; c.out.mu.Unlock() }

// SimTLSConn adds a scripted HandshakeContext (ideal record layer "TLS shim").
type SimTLSConn struct {
	*SimConn
	Handshake func(ctx context.Context) error
	hsMu      sync.Mutex
	hsDone    bool
}

func (c *SimTLSConn) HandshakeContext(ctx context.Context) error {
	c.hsMu.Lock()
	done := c.hsDone
	c.hsMu.Unlock()
	if c.Handshake == nil || done {
		return nil // a completed handshake is not run again
	}
	err := c.Handshake(ctx)
	if err == nil {
		c.hsMu.Lock()
		c.hsDone = true
		c.hsMu.Unlock()
	}
	return err
}

// ---------------------------------------------------------------- TCP endpoint: real tcp.Client over the simulated stream

type TCPEndpoint struct {
	Env   *Env
	Conn  *SimConn
	CC    *tcpClient.Conn
	mu    sync.Mutex
	Errs  []string
	ticks []func(now time.Time) bool
}

type TCPEndpointCfg struct {
	Opts      []tcp.Option
	TLS       bool
	Handshake func(ctx context.Context) error
}

type periodicSeam struct{ ep *TCPEndpoint }

// NewTCPEndpoint runs the real tcp.Client wiring over conn, with the periodic-runner seam owned by the simulator.
func NewTCPEndpoint(e *Env, conn *SimConn, c TCPEndpointCfg) (*TCPEndpoint, error) {
	e.Real("tcp.Client (wiring)", "tcp/client.Conn", "tcp/client.Session", "net.Conn (context read/write, write lock)", "tcp/coder", "net/client", "net/observation", "net/responsewriter", "message/pool", "pkg/sync.Map")
	e.Stub("periodic runner (WithPeriodicRunner seam: simulator ticks)")
	ep := &TCPEndpoint{Env: e, Conn: conn}
	opts := []tcp.Option{
		options.WithPeriodicRunner(func(f func(now time.Time) bool) {
			ep.mu.Lock()
			ep.ticks = append(ep.ticks, f)
			ep.mu.Unlock()
		}),
		options.WithErrors(func(err error) {
			ep.mu.Lock()
			ep.Errs = append(ep.Errs, err.Error())
			ep.mu.Unlock()
		}),
		options.WithMessagePool(pool.New(e.PoolCapacity, 2048)),
	}
	opts = append(opts, c.Opts...)
	var nc net.Conn = conn
	if c.TLS {
		nc = &SimTLSConn{SimConn: conn, Handshake: c.Handshake}
		e.Stub("crypto/tls record layer (ideal shim with scripted handshake)")
	}
	cc, err := tcp.Client(nc, opts...)
	if err != nil {
		return nil, err
	}
	ep.CC = cc
	e.OnCleanup(func() { _ = cc.Close(); _ = conn.Close() })
	return ep, nil
}

// Tick runs the registered housekeeping callbacks with now, in their own goroutine.
func (ep *TCPEndpoint) Tick(now time.Time) {
	ep.mu.Lock()
	fs := append([]func(now time.Time) bool(nil), ep.ticks...)
	ep.mu.Unlock()
	go func() {
		for _, f := range fs {
			f(now)
		}
	}()
}

func (ep *TCPEndpoint) Errors() []string {
	ep.mu.Lock()
	defer ep.mu.Unlock()
	return append([]string(nil), ep.Errs...)
}

var _ = errors.New

// ---------------------------------------------------------------- datagram-preserving net.Conn (ideal DTLS record layer shim)

// SimPacketConn is a net.Conn whose Write sends one record and whose Read returns one record.
type SimPacketConn struct {
	mu           sync.Mutex
	in           [][]byte // released to the reader
	Out          [][]byte // written by the endpoint, consumed by the scripted peer
	rwake        chan struct{}
	closed       chan struct{}
	once         sync.Once
	laddr, raddr net.Addr
	Handshake    func(ctx context.Context) error
	WriteErr     error
	reset        bool
	hsDone       bool
	env          *Env
	OutAt        []time.Duration // write times of Out (simulated)
	rd           readDeadline
}

func NewPacketConn(e *Env, l, r *net.UDPAddr) *SimPacketConn {
	e.Stub("pion/dtls record layer (ideal datagram-preserving shim with scripted handshake)")
	return &SimPacketConn{rwake: make(chan struct{}, 1), closed: make(chan struct{}), laddr: l, raddr: r, env: e}
}

func (c *SimPacketConn) HandshakeContext(ctx context.Context) error {
	c.mu.Lock()
	done := c.hsDone
	c.mu.Unlock()
	if c.Handshake == nil || done {
		return nil // a completed handshake is not run again (the library asks before every read and write)
	}
	err := c.Handshake(ctx)
	if err == nil {
		c.mu.Lock()
		c.hsDone = true
		c.mu.Unlock()
	}
	return err
}

func (c *SimPacketConn) Read(b []byte) (int, error) {
	for {
		select {
		case <-c.closed:
			return 0, net.ErrClosed
		default:
		}
		c.mu.Lock()
		if c.reset {
			c.mu.Unlock()
			return 0, &net.OpError{Op: "read", Net: "udp", Err: syscall.ECONNRESET}
		}
		if len(c.in) > 0 {
			r := c.in[0]
			c.in = c.in[1:]
			c.mu.Unlock()
			return copy(b, r), nil
		}
		c.mu.Unlock()
		expired, changed, timer := c.rd.state()
		if expired {
			return 0, os.ErrDeadlineExceeded
		}
		select {
		case <-c.rwake:
		case <-c.closed:
		case <-changed:
		case <-timer:
		}
	}
}

func (c *SimPacketConn) Write(b []byte) (int, error) {
	select {
	case <-c.closed:
		return 0, net.ErrClosed
	default:
	}
	if c.WriteErr != nil {
		return 0, c.WriteErr
	}
	c.mu.Lock()
	c.Out = append(c.Out, append([]byte(nil), b...))
	if c.env != nil {
		c.OutAt = append(c.OutAt, c.env.Now())
	}
	c.mu.Unlock()
	return len(b), nil
}

// TakeOutAt is TakeOut plus the simulated time at which each record was written.
func (c *SimPacketConn) TakeOutAt() ([][]byte, []time.Duration) {
	c.mu.Lock()
	defer c.mu.Unlock()
	o, at := c.Out, c.OutAt
	c.Out, c.OutAt = nil, nil
	return o, at
}

func (c *SimPacketConn) Close() error {
	c.once.Do(func() { close(c.closed) })
	return nil
}

// ClosedCh is closed when the connection has been closed locally.
func (c *SimPacketConn) ClosedCh() <-chan struct{} { return c.closed }

func (c *SimPacketConn) IsClosed() bool {
	select {
	case <-c.closed:
		return true
	default:
		return false
	}
}
func (c *SimPacketConn) LocalAddr() net.Addr               { return c.laddr }
func (c *SimPacketConn) RemoteAddr() net.Addr              { return c.raddr }
func (c *SimPacketConn) SetDeadline(t time.Time) error     { c.rd.set(t); return nil }
func (c *SimPacketConn) SetReadDeadline(t time.Time) error { c.rd.set(t); return nil }
func (c *SimPacketConn) SetWriteDeadline(time.Time) error  { return nil }

// Deliver hands one record to the reader.
func (c *SimPacketConn) Deliver(b []byte) {
	c.mu.Lock()
	c.in = append(c.in, append([]byte(nil), b...))
	c.mu.Unlock()
	poke(c.rwake)
}

// TakeOut removes and returns the records written by the endpoint.
func (c *SimPacketConn) TakeOut() [][]byte {
	c.mu.Lock()
	o := c.Out
	c.Out, c.OutAt = nil, nil
	c.mu.Unlock()
	return o
}

// ResetConn makes reads fail with ECONNRESET.
func (c *SimPacketConn) ResetConn() {
	c.mu.Lock()
	c.reset = true
	c.mu.Unlock()
	poke(c.rwake)
}
