package sim

import (
	"bytes"
	"context"
	"fmt"
	"time"

	"github.com/plgd-dev/go-coap/v3/message"
	"github.com/plgd-dev/go-coap/v3/message/codes"
	"github.com/plgd-dev/go-coap/v3/mux"
	coapNet "github.com/plgd-dev/go-coap/v3/net"
	"github.com/plgd-dev/go-coap/v3/options"
	udpClient "github.com/plgd-dev/go-coap/v3/udp/client"
	udpServer "github.com/plgd-dev/go-coap/v3/udp/server"
)

// C11, nesting on a connection of a *server*: "to any nesting depth". The peer asks /d3; the handler asks the peer
// /d2; before answering, the peer asks /d1; that handler asks the peer /d0. Depth two on one connection means two
// requests of the server outstanding at once - which the application has allowed: the server is given
// WithLimitClientParallelRequest / WithLimitClientEndpointParallelRequest (the limits drawn per run, 0 = none) and an
// NSTART that does not stand in the way. Everything is answered at once, so everything ends at t=0.
func c11ServerDepthRun(e *Env) {
	t := e.Tape
	qsize := t.Choose(3)
	limit := []int64{0, 2, 4}[t.Choose(3)]
	e.NoAutoRacy = true
	type hres struct {
		path string
		err  error
		body string
	}
	var results []hres
	router := mux.NewRouter()
	router.DefaultHandle(mux.HandlerFunc(func(rw mux.ResponseWriter, r *mux.Message) {
		if r.Code() == codes.Empty {
			return
		}
		path, _ := r.Options().Path()
		next := map[string]string{"/d3": "/d2", "/d1": "/d0"}[path]
		if next == "" {
			return
		}
		e.Notef("handler %s asks the peer %s", path, next)
		ctx, cancel := context.WithTimeout(context.Background(), 10*time.Second)
		defer cancel()
		resp, err := rw.Conn().Get(ctx, next)
		res := hres{path: path, err: err}
		if err == nil {
			b, _ := resp.ReadBody()
			res.body = string(b)
			rw.Conn().ReleaseMessage(resp)
		}
		e.mu.Lock()
		results = append(results, res)
		e.mu.Unlock()
		e.Notef("handler %s: nested %s -> %q err=%v", path, next, res.body, err != nil)
		_ = rw.SetResponse(codes.Content, message.TextPlain, bytes.NewReader([]byte("done-"+path[1:])))
	}))
	dn := NewDNet(e)
	srvAddr := UDPAddr("10.0.0.100", 5683)
	sock := dn.Socket(srvAddr, nil)
	sock.WithCM = true
	l := coapNet.NewVerifUDPConn("udp", sock)
	e.OnCleanup(func() { coapNet.VerifForgetUDPConn(l) })
	seam := c10UDPSeam{mid: 7000, tick: func(func(now time.Time) bool) {}}
	srv := udpServer.New(options.WithMux(router), seam,
		options.WithErrors(func(error) {}),
		options.WithReceivedMessageQueueSize(qsize),
		options.WithTransmission(8, 1000*time.Second, 2),
		options.WithLimitClientParallelRequest(limit),
		options.WithLimitClientEndpointParallelRequest(limit),
		options.WithOnNewConn(func(*udpClient.Conn) {}),
		options.WithInactivityMonitor(100000*time.Second, func(cc *udpClient.Conn) { _ = cc.Close() }))
	go func() { _ = srv.Serve(l) }()
	e.OnCleanup(func() { srv.Stop(); _ = l.Close() })
	e.Real("udp/server.Server (per-connection configuration built from the server's options)", "net/client/limitParallelRequests", "net/client.ReceivedMessageReader")
	p := UDPAddr("10.0.1.10", 40000)
	var got []*WMsg
	dn.ScriptedPeer(p, func(d *Dgram) {
		if m, err := DecodeUDP(d.Data); err == nil {
			got = append(got, m)
		}
	})
	e.Wait()
	e.Logf("cfg queue=%d limits=%d/%d (0 = none)", qsize, limit, limit)
	mid := uint16(100)
	inject := func(m *WMsg, label string) {
		d := dn.Inject(p, srvAddr, EncodeUDP(m))
		dn.Take(d)
		dn.Deliver(d)
		e.Logf("peer sends %s", label)
		e.Wait()
		for _, x := range dn.PendingList() {
			if x.Dst.String() == p.String() {
				dn.Take(x)
				dn.Deliver(x)
			}
		}
		e.Wait()
	}
	ask := func(path string, n int) {
		mid++
		inject(&WMsg{Type: TNON, Code: 1, MID: mid, Token: []byte{0x21, byte(n)}, Opts: []WOpt{{Num: OptURIPath, Val: []byte(path[1:])}}}, "GET "+path)
	}
	find := func(path string) *WMsg {
		for _, m := range got {
			if m.Code == 1 && len(m.Opts) > 0 && m.Opts[0].Num == OptURIPath && "/"+string(m.Opts[0].Val) == path {
				return m
			}
		}
		return nil
	}
	answer := func(req *WMsg, body string) {
		inject(&WMsg{Type: TACK, Code: 0x45, MID: req.MID, Token: req.Token, Payload: []byte(body)}, "answer "+body)
	}
	// whatever the verdict, the handlers are let out before the world is taken down: every request of the server
	// that is on the wire gets its answer
	answered := map[*WMsg]bool{}
	settle := func() {
		for round := 0; round < 4; round++ {
			for _, m := range append([]*WMsg(nil), got...) {
				if m.Code == 1 && !answered[m] {
					answered[m] = true
					answer(m, "late")
				}
			}
		}
	}
	ask("/d3", 3)
	d2 := find("/d2")
	if d2 == nil {
		e.Violate("C11.R4", "nested-request-stalled:server-connection:depth1", "the handler of /d3 asked for /d2 and the request did not reach the peer")
		settle()
		return
	}
	// the peer needs something from the server before it can answer
	ask("/d1", 1)
	e.NonTrivial()
	e.Probe("server.nestingDepthTwo")
	d0 := find("/d0")
	if d0 == nil {
		e.Violate("C11.R4", "nested-request-stalled:server-connection-ignores-limit-options", "limits %d/%d given to the server: the handler of /d1 asked for /d0 while /d2 of the handler of /d3 is outstanding on the same connection, and the request has not been sent", limit, limit)
		settle()
		return
	}
	answered[d0], answered[d2] = true, true
	answer(d0, "zero")
	answer(d2, "two")
	e.mu.Lock()
	rs := append([]hres(nil), results...)
	e.mu.Unlock()
	want := map[string]string{"/d1": "zero", "/d3": "two"}
	if len(rs) != 2 {
		e.Violate("C11.R4", "nested-request-stalled:server-connection:unfinished", "every request was answered at once; %d of 2 handlers have finished their nested request: %v", len(rs), rs)
		settle()
		return
	}
	for _, r := range rs {
		if r.err != nil || r.body != want[r.path] {
			e.Violate("C11.R4", "nested-request-wrong-result:server-connection", "handler %s: nested request returned %q, err=%v; the peer answered %q", r.path, r.body, r.err, want[r.path])
		}
	}
	_ = fmt.Sprint
}
