package sim

import (
	"bytes"
	"context"
	"fmt"
	"time"

	"github.com/plgd-dev/go-coap/v3/message"
	"github.com/plgd-dev/go-coap/v3/message/codes"
	"github.com/plgd-dev/go-coap/v3/message/pool"
	"github.com/plgd-dev/go-coap/v3/mux"
	"github.com/plgd-dev/go-coap/v3/net/responsewriter"
	"github.com/plgd-dev/go-coap/v3/options"
	"github.com/plgd-dev/go-coap/v3/options/config"
	"github.com/plgd-dev/go-coap/v3/tcp"
	tcpClient "github.com/plgd-dev/go-coap/v3/tcp/client"
	udpClient "github.com/plgd-dev/go-coap/v3/udp/client"
)

// C12, own scenario: the application plugs in its own message processor (public option
// WithProcessReceivedMessageFunc: middleware that does some work after the handler chain has returned - here a
// park point of the simulator) and is finished with a response the moment it gets it. The receive path of the
// library is then still inside its bookkeeping for that very message when the application releases it.

func c12Middleware(e *Env) {
	t := e.Tape
	tr := PickTransport(t)
	nReq := 1 + t.Choose(4)
	nIn := t.Choose(3)
	for i := 0; i < 12; i++ {
		if t.Chance(2, 3) {
			e.EnablePark("app.afterDispatch", i)
		}
	}
	router := mux.NewRouter()
	router.DefaultHandle(mux.HandlerFunc(func(rw mux.ResponseWriter, r *mux.Message) {
		e.Pool.HoldWhile(r.Message, "request inside its handler", func() {
			ri := Snapshot(r.Message)
			e.Notef("handler got %s", ri)
			_ = rw.SetResponse(codes.Content, message.TextPlain, bytes.NewReader(append([]byte("echo:"), ri.Payload...)))
		})
	}))
	var w *CWorld
	if IsDatagram(tr) {
		cfg := SimUDPConfig(int32(t.Choose(65536)))
		cfg.TransmissionNStart = 16
		cfg.TransmissionAcknowledgeTimeout = 2 * time.Second
		cfg.BlockwiseEnable = false
		options.WithMux(router).UDPClientApply(&cfg)
		cfg.ProcessReceivedMessage = func(req *pool.Message, cc *udpClient.Conn, handler config.HandlerFunc[*udpClient.Conn]) {
			cc.ProcessReceivedMessageWithHandler(req, func(rw *responsewriter.ResponseWriter[*udpClient.Conn], r *pool.Message) {
				handler(rw, r)
				e.yieldHook("app.afterDispatch", 0) // post-processing of the middleware
			})
		}
		w = NewCWorld(e, CWorldCfg{Transport: tr, UDP: cfg})
	} else {
		w = NewCWorld(e, CWorldCfg{Transport: tr, TCPOpts: []tcp.Option{
			options.WithMux(router), options.WithCloseSocket(),
			options.WithLimitClientParallelRequest(0), options.WithLimitClientEndpointParallelRequest(0),
			options.WithProcessReceivedMessageFunc(func(req *pool.Message, cc *tcpClient.Conn, handler config.HandlerFunc[*tcpClient.Conn]) {
				cc.ProcessReceivedMessageWithHandler(req, func(rw *responsewriter.ResponseWriter[*tcpClient.Conn], r *pool.Message) {
					handler(rw, r)
					e.yieldHook("app.afterDispatch", 0)
				})
			}),
		}})
	}
	if w == nil {
		return
	}
	e.Real("mux.Router (default handler)", "net/client.ReceivedMessageReader", "options.WithProcessReceivedMessageFunc (application middleware around the handler chain)")
	e.Wait()
	w.Pump()
	e.Logf("cfg transport=%s requests=%d incoming=%d", tr, nReq, nIn)
	w.OnRecv = func(m *WMsg) {
		if IsDatagram(tr) && (m.Type == TACK || m.Type == TRST) {
			return
		}
		if m.Code >= 1 && m.Code <= 4 {
			n := ParseNonce(m)
			pl := []byte(fmt.Sprintf("answer-%d", n))
			var it *OutItem
			if IsDatagram(tr) && m.Type == TCON {
				it = w.Queue(&WMsg{Type: TACK, Code: 0x45, MID: m.MID, Token: m.Token, Payload: pl}, fmt.Sprintf("answer-%d", n))
			} else {
				it = w.Queue(&WMsg{Type: TNON, Code: 0x45, MID: w.NextPeerMID(), Token: m.Token, Payload: pl}, fmt.Sprintf("answer-%d", n))
			}
			it.NoDup, it.NoDrop = true, true
		}
	}
	var calls []*Call
	started, sentIn := 0, 0
	for step := 0; step < 60 && e.Budget(); step++ {
		evs := w.Events(4)
		if started < nReq {
			evs = append(evs, Event{Label: "start", W: 4, Do: func() {
				started++
				n := started
				c := e.NewCall(fmt.Sprintf("get%d", n), n, nil, 1000*time.Second)
				c.ReleaseAtOnce = t.Chance(2, 3)
				calls = append(calls, c)
				e.Logf("start get%d release-at-once=%v", n, c.ReleaseAtOnce)
				e.Start(c, func(ctx context.Context) (*pool.Message, error) {
					return w.API.Get(ctx, "/m", QueryOpt(n))
				}, w.API.ReleaseMessage)
			}})
		}
		if sentIn < nIn {
			evs = append(evs, Event{Label: "incoming", W: 2, Do: func() {
				sentIn++
				m := &WMsg{Type: TCON, Code: 2, MID: w.NextPeerMID(), Token: []byte{0xc2, byte(sentIn)}, Opts: []WOpt{{Num: OptURIPath, Val: []byte("in")}}, Payload: []byte(fmt.Sprintf("in-%d", sentIn))}
				it := w.Queue(m, fmt.Sprintf("in-%d", sentIn))
				it.NoDup, it.NoDrop = true, true
			}})
		}
		for _, pg := range e.Parked() {
			pg := pg
			evs = append(evs, Event{Label: "resume", W: 3, Do: func() {
				e.Logf("the middleware's post-processing ends (hit %d)", pg.Hit)
				e.NonTrivial()
				e.Probe("middleware.resumedAfterAppWasDone")
				e.Resume(pg)
			}})
		}
		if len(evs) == 0 {
			break
		}
		w.Step(evs)
	}
	for _, pg := range e.Parked() {
		e.Resume(pg)
	}
	e.Wait()
	w.Pump()
	for _, c := range calls {
		if ri, err := c.Result(); c.Done() && err == nil && ri != nil {
			if exp := fmt.Sprintf("answer-%d", c.Nonce); string(ri.Payload) != exp || ri.Code != 0x45 {
				e.Violate("C12.R3", "response-content-changed", "call %s returned %s, the peer answered 2.05 %q", c.Name, ri, exp)
			}
		}
	}
}
