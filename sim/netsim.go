package sim

import (
	"context"
	"fmt"
	"net"
	"os"
	"sort"
	"sync"
	"time"

	"github.com/plgd-dev/go-coap/v3/message"
	"github.com/plgd-dev/go-coap/v3/message/pool"
	coapNet "github.com/plgd-dev/go-coap/v3/net"
	"github.com/plgd-dev/go-coap/v3/net/blockwise"
	"github.com/plgd-dev/go-coap/v3/net/monitor/inactivity"
	udpClient "github.com/plgd-dev/go-coap/v3/udp/client"
	udpServer "github.com/plgd-dev/go-coap/v3/udp/server"
)

// ---------------------------------------------------------------- simulated datagram network

type Dgram struct {
	ID   int
	Src  *net.UDPAddr
	Dst  *net.UDPAddr
	Data []byte
	Born time.Duration
	Dups int // how often this datagram has been duplicated by the network
}

// DNet is the simulated datagram network. Writes append to Pending; only the
// simulator goroutine moves datagrams on.
type DNet struct {
	env      *Env
	mu       sync.Mutex
	socks    map[string]*DSock
	Pending  []*Dgram
	nextID   int
	peers    map[string]func(d *Dgram) // scripted peers: datagrams are handed to the simulator
	groups   map[string][]*DSock
	Sent     []*Dgram                          // complete write log (every datagram ever written), in write order
	WriteErr func(src, dst *net.UDPAddr) error // optional injected write error
}

func NewDNet(e *Env) *DNet {
	e.Stub("kernel UDP / NIC (netsim datagram network)")
	return &DNet{env: e, socks: map[string]*DSock{}, peers: map[string]func(d *Dgram){}, groups: map[string][]*DSock{}}
}

func UDPAddr(ip string, port int) *net.UDPAddr {
	return &net.UDPAddr{IP: net.ParseIP(ip).To4(), Port: port}
}

// DSock is a simulated UDP socket; it implements coapNet.VerifPacketConn.
type DSock struct {
	n      *DNet
	laddr  *net.UDPAddr
	raddr  *net.UDPAddr
	inbox  chan *Dgram
	closed chan struct{}
	once   sync.Once
	WithCM bool
	srcAs  *net.UDPAddr // source address of outgoing datagrams when the socket is bound to the wildcard address
	rd     readDeadline
}

// SetReadDeadline: see readDeadline (reached through the adapter of the H-UDP hook).
func (s *DSock) SetReadDeadline(t time.Time) error { s.rd.set(t); return nil }

func (n *DNet) Socket(laddr, raddr *net.UDPAddr) *DSock {
	s := &DSock{n: n, laddr: laddr, raddr: raddr, inbox: make(chan *Dgram, 1024), closed: make(chan struct{})}
	n.mu.Lock()
	n.socks[laddr.String()] = s
	n.mu.Unlock()
	return s
}

// WildcardSocket is a socket bound to 0.0.0.0:port that is reachable under reach (the concrete address peers send
// to, reported to the reader in the control message) and whose datagrams leave with reach as their source.
func (n *DNet) WildcardSocket(reach *net.UDPAddr) *DSock {
	s := n.Socket(&net.UDPAddr{IP: net.IPv4zero, Port: reach.Port}, nil)
	s.srcAs = reach
	s.WithCM = true
	n.mu.Lock()
	n.socks[reach.String()] = s
	n.mu.Unlock()
	return s
}

// ScriptedPeer registers an address whose datagrams are consumed by f on the simulator goroutine.
func (n *DNet) ScriptedPeer(addr *net.UDPAddr, f func(d *Dgram)) {
	n.mu.Lock()
	n.peers[addr.String()] = f
	n.mu.Unlock()
}

func (s *DSock) LocalAddr() net.Addr { return s.laddr }
func (s *DSock) RemoteAddr() net.Addr {
	if s.raddr == nil {
		return nil
	}
	return s.raddr
}
func (s *DSock) NetConn() net.Conn { return nil }
func (s *DSock) IsIPv6() bool      { return false }
func (s *DSock) Close() error {
	s.once.Do(func() { close(s.closed) })
	return nil
}
func (s *DSock) IsClosed() bool {
	select {
	case <-s.closed:
		return true
	default:
		return false
	}
}

func (s *DSock) JoinGroup(_ *net.Interface, group net.Addr) error {
	s.n.mu.Lock()
	s.n.groups[group.String()] = append(s.n.groups[group.String()], s)
	s.n.mu.Unlock()
	return nil
}

func (s *DSock) LeaveGroup(_ *net.Interface, group net.Addr) error {
	s.n.mu.Lock()
	g := s.n.groups[group.String()]
	for i, x := range g {
		if x == s {
			s.n.groups[group.String()] = append(g[:i:i], g[i+1:]...)
			break
		}
	}
	s.n.mu.Unlock()
	return nil
}

func (s *DSock) WriteTo(b []byte, _ *coapNet.ControlMessage, dst net.Addr) (int, error) {
	if s.IsClosed() {
		return 0, net.ErrClosed
	}
	ua, ok := dst.(*net.UDPAddr)
	if !ok || ua == nil {
		return 0, fmt.Errorf("netsim: bad destination %v", dst)
	}
	if s.n.WriteErr != nil {
		if err := s.n.WriteErr(s.laddr, ua); err != nil {
			return 0, err
		}
	}
	src := s.laddr
	if s.srcAs != nil {
		src = s.srcAs
	}
	s.n.Inject(src, ua, b)
	return len(b), nil
}

func (s *DSock) WriteToAddr(_ *net.Interface, _ *net.IP, _ int, raddr *net.UDPAddr, buffer []byte) error {
	_, err := s.WriteTo(buffer, nil, raddr)
	return err
}

func (s *DSock) ReadFrom(b []byte) (int, *coapNet.ControlMessage, net.Addr, error) {
	take := func(d *Dgram) (int, *coapNet.ControlMessage, net.Addr, error) {
		n := copy(b, d.Data)
		var cm *coapNet.ControlMessage
		if s.WithCM {
			cm = &coapNet.ControlMessage{Dst: d.Dst.IP, IfIndex: 1}
		}
		return n, cm, d.Src, nil
	}
	for {
		// what is there is read first (one ready case per select: the runtime has nothing to choose)
		select {
		case d := <-s.inbox:
			return take(d)
		default:
		}
		select {
		case <-s.closed:
			return 0, nil, nil, net.ErrClosed
		default:
		}
		expired, changed, timer := s.rd.state()
		if expired {
			return 0, nil, nil, os.ErrDeadlineExceeded
		}
		select {
		case d := <-s.inbox:
			return take(d)
		case <-s.closed:
			return 0, nil, nil, net.ErrClosed
		case <-changed:
		case <-timer:
		}
	}
}

// Inject puts a datagram on the network (write log + pending list).
func (n *DNet) Inject(src, dst *net.UDPAddr, data []byte) *Dgram {
	n.mu.Lock()
	defer n.mu.Unlock()
	d := &Dgram{Src: src, Dst: dst, Data: append([]byte(nil), data...), Born: n.env.Now()}
	n.Pending = append(n.Pending, d)
	n.Sent = append(n.Sent, d)
	return d
}

// InjectBorn is Inject for a datagram that was written at an earlier simulated time (relayed from a shim).
func (n *DNet) InjectBorn(src, dst *net.UDPAddr, data []byte, born time.Duration) *Dgram {
	d := n.Inject(src, dst, data)
	n.mu.Lock()
	d.Born = born
	n.mu.Unlock()
	return d
}

// Take removes and returns the pending datagram d.
func (n *DNet) Take(d *Dgram) {
	n.mu.Lock()
	for i, x := range n.Pending {
		if x == d {
			n.Pending = append(n.Pending[:i], n.Pending[i+1:]...)
			break
		}
	}
	n.mu.Unlock()
}

// PendingList returns the pending datagrams in canonical order: by
// (src, dst), then emission order. Datagrams written by different goroutines
// of one endpoint in one phase are additionally ordered by content, because
// their relative write order is a runtime choice (DESIGN §3.4).
func (n *DNet) PendingList() []*Dgram {
	n.mu.Lock()
	out := append([]*Dgram(nil), n.Pending...)
	n.mu.Unlock()
	less := func(a, b *Dgram) bool {
		if as, bs := a.Src.String(), b.Src.String(); as != bs {
			return as < bs
		}
		if ad, bd := a.Dst.String(), b.Dst.String(); ad != bd {
			return ad < bd
		}
		if a.Born != b.Born {
			return a.Born < b.Born
		}
		return string(a.Data) < string(b.Data)
	}
	sort.SliceStable(out, func(i, j int) bool { return less(out[i], out[j]) })
	// datagram IDs are assigned here, in canonical order, not at write time:
	// the write order of two goroutines (or of a map-ordered sweep) inside one
	// phase is a runtime choice and must not leak into the log.
	n.mu.Lock()
	for _, d := range out {
		if d.ID == 0 {
			n.nextID++
			d.ID = n.nextID
		}
	}
	n.mu.Unlock()
	return out
}

// Deliver hands d to its destination (socket inbox or scripted peer). It does
// not remove d from Pending (so a duplicate can be delivered again).
func (n *DNet) Deliver(d *Dgram) bool {
	n.mu.Lock()
	peer := n.peers[d.Dst.String()]
	sock := n.socks[d.Dst.String()]
	var group []*DSock
	if d.Dst.IP.IsMulticast() {
		group = append(group, n.groups[d.Dst.String()]...)
	}
	n.mu.Unlock()
	if peer != nil {
		if n.env.Pool.Enabled {
			n.env.Pool.CheckWireRaw(d.Data)
			if m, err := DecodeUDP(d.Data); err == nil {
				n.env.Pool.CheckWire(m)
			}
		}
		peer(d)
		return true
	}
	if len(group) > 0 {
		for _, s := range group {
			if !s.IsClosed() {
				select {
				case s.inbox <- d:
				default:
				}
			}
		}
		return true
	}
	if sock == nil || sock.IsClosed() {
		n.env.Fault("dgram.noSocket")
		return false
	}
	if sock.raddr != nil && sock.raddr.String() != d.Src.String() {
		n.env.Fault("dgram.filteredByConnect")
		return false
	}
	select {
	case sock.inbox <- d:
		return true
	default:
		n.env.Fault("dgram.rcvbufOverflow")
		return false
	}
}

// ---------------------------------------------------------------- UDP endpoint (replicates udp.Client wiring over the simulated socket)

type UDPEndpointCfg struct {
	Cfg        udpClient.Config // start from udpClient.DefaultConfig
	Local      *net.UDPAddr
	Remote     *net.UDPAddr
	Monitor    udpClient.InactivityMonitor
	OnErr      func(error)
	MsgCache   udpClient.MessageCache
	ReqMonitor udpClient.RequestMonitorFunc
	// OwnSocket: the socket belongs to the application (udp.Client(conn) without WithCloseSocket): Close of the
	// connection leaves it open
	OwnSocket bool
}

type UDPEndpoint struct {
	Env     *Env
	Net     *DNet
	Sock    *DSock
	UDPConn *coapNet.UDPConn
	Sess    *udpServer.Session
	CC      *udpClient.Conn
	Errs    []string
	RunErr  error
	RunDone bool
	mu      sync.Mutex
	midCtr  int32
}

// NewUDPEndpoint builds a client connection exactly as udp.Client does (the
// 40 lines of wiring are replicated because udp.Client needs a *net.UDPConn),
// over the real udp/server.Session and the real coapNet.UDPConn.
func NewUDPEndpoint(e *Env, n *DNet, c UDPEndpointCfg) *UDPEndpoint {
	e.Real("udp/client.Conn", "udp/server.Session", "net.UDPConn (read/write paths, option plumbing)", "net/client", "net/observation", "net/responsewriter", "message/pool", "pkg/sync.Map", "pkg/cache", "udp/client.MutexMap", "udp/coder")
	e.Stub("udp.Client wiring (replicated: needs *net.UDPConn)", "periodic runner (WithPeriodicRunner seam: simulator ticks)")
	ep := &UDPEndpoint{Env: e, Net: n}
	cfg := c.Cfg
	ep.Sock = n.Socket(c.Local, c.Remote)
	userErr := c.OnErr
	cfg.Errors = func(err error) {
		if coapNet.IsCancelOrCloseError(err) {
			return
		}
		ep.mu.Lock()
		ep.Errs = append(ep.Errs, err.Error())
		ep.mu.Unlock()
		if userErr != nil {
			userErr(err)
		}
	}
	if cfg.MessagePool == nil {
		cfg.MessagePool = pool.New(0, 0)
	}
	if e.PoolCapacity > 0 {
		cfg.MessagePool = pool.New(e.PoolCapacity, 2048)
	}
	if cfg.Ctx == nil {
		cfg.Ctx = context.Background()
	}
	if cfg.GetMID == nil || true {
		base := cfg.GetMID
		_ = base
	}
	createBlockWise := func(*udpClient.Conn) *blockwise.BlockWise[*udpClient.Conn] { return nil }
	if cfg.BlockwiseEnable {
		e.Real("net/blockwise")
		createBlockWise = func(cc *udpClient.Conn) *blockwise.BlockWise[*udpClient.Conn] {
			v := cc
			return blockwise.New(v, cfg.BlockwiseTransferTimeout, cfg.Errors, func(token message.Token) (*pool.Message, bool) {
				return v.GetObservationRequest(token)
			})
		}
	}
	monitor := c.Monitor
	if monitor == nil {
		monitor = inactivity.NewNilMonitor[*udpClient.Conn]()
	}
	ep.UDPConn = coapNet.NewVerifUDPConn("udp", ep.Sock, coapNet.WithErrors(cfg.Errors))
	e.OnCleanup(func() { coapNet.VerifForgetUDPConn(ep.UDPConn) })
	ep.Sess = udpServer.NewSession(cfg.Ctx, context.Background(), ep.UDPConn, c.Remote, cfg.MaxMessageSize, cfg.MTU, !c.OwnSocket)
	opts := []udpClient.Option{udpClient.WithBlockWise(createBlockWise), udpClient.WithInactivityMonitor(monitor)}
	if c.ReqMonitor != nil {
		opts = append(opts, udpClient.WithRequestMonitor(c.ReqMonitor))
	}
	if c.MsgCache != nil {
		opts = append(opts, udpClient.WithResponseMessageCache(c.MsgCache))
	}
	ep.CC = udpClient.NewConnWithOpts(ep.Sess, &cfg, opts...)
	go func() {
		err := ep.CC.Run()
		ep.mu.Lock()
		ep.RunErr = err
		ep.RunDone = true
		ep.mu.Unlock()
	}()
	e.OnCleanup(func() { _ = ep.CC.Close() })
	return ep
}

// Tick runs the housekeeping callback with the given now in its own goroutine.
func (ep *UDPEndpoint) Tick(now time.Time) {
	cc := ep.CC
	go func() {
		if cc.Context().Err() == nil {
			cc.CheckExpirations(now)
		}
	}()
}

func (ep *UDPEndpoint) Errors() []string {
	ep.mu.Lock()
	defer ep.mu.Unlock()
	return append([]string(nil), ep.Errs...)
}

// SimUDPConfig returns the default configuration with simulator-owned seams.
func SimUDPConfig(firstMID int32) udpClient.Config {
	cfg := udpClient.DefaultConfig
	cfg.PeriodicRunner = func(func(now time.Time) bool) {}
	cfg.GetMID = func() int32 { return firstMID }
	cfg.LimitClientParallelRequests = 0
	cfg.LimitClientEndpointParallelRequests = 0
	cfg.MessagePool = pool.New(0, 0)
	cfg.Errors = nil
	return cfg
}

// UDPAddrFrom parses "ip:port" (panics on nonsense: harness-internal use only).
func UDPAddrFrom(s string) *net.UDPAddr {
	a, err := net.ResolveUDPAddr("udp", s)
	if err != nil {
		panic(err)
	}
	return a
}
