package sim

import (
	"bytes"
	"fmt"
	"strings"
	"time"

	"github.com/plgd-dev/go-coap/v3/message"
	"github.com/plgd-dev/go-coap/v3/message/codes"
	"github.com/plgd-dev/go-coap/v3/mux"
	"github.com/plgd-dev/go-coap/v3/options"
	"github.com/plgd-dev/go-coap/v3/tcp"
)

// C17 on the wire: "every request path" includes what a peer can put into Uri-Path options - empty segments,
// segments next to options the decoder skips (a known option with an illegal length is dropped silently, RFC 7252
// 5.4.3). The router sits behind a real connection; the scripted peer encodes the requests with the harness's own
// codec; the handler that ran and the variables it saw are compared with the reference matcher applied to the
// segments the peer sent.

func c17WireRun(e *Env) {
	t := e.Tape
	tr := PickTransport(t)
	nPat := 2 + t.Choose(3)
	var pats []c17Pattern
	seen := map[string]bool{}
	for tries := 0; len(pats) < nPat && tries < 12; tries++ { // bounded: an exhausted (shrunk) tape draws "/" for ever
		p := c17MakePattern(t)
		if !seen[p.text] {
			seen[p.text] = true
			pats = append(pats, p)
		}
	}
	type hit struct {
		pattern string // "" = default handler
		vars    map[string]string
		path    string
	}
	var hits []hit
	router := mux.NewRouter()
	mk := func(pattern string) mux.Handler {
		return mux.HandlerFunc(func(rw mux.ResponseWriter, r *mux.Message) {
			if r.Code() == codes.Empty {
				return
			}
			h := hit{pattern: pattern, vars: map[string]string{}}
			if r.RouteParams != nil {
				for k, v := range r.RouteParams.Vars {
					h.vars[k] = v
				}
			}
			h.path, _ = r.Options().Path()
			e.mu.Lock()
			hits = append(hits, h)
			e.mu.Unlock()
			e.Notef("handler of %q ran for path %q", pattern, h.path)
			_ = rw.SetResponse(codes.Content, message.TextPlain, bytes.NewReader([]byte("ok")))
		})
	}
	router.DefaultHandle(mk(""))
	for _, p := range pats {
		if err := router.Handle(p.text, mk(p.text)); err != nil {
			e.Violate("C17.R0", "handle-refused-valid-pattern", "Handle(%q) failed: %v", p.text, err)
			return
		}
	}
	var w *CWorld
	if IsDatagram(tr) {
		cfg := SimUDPConfig(int32(t.Choose(65536)))
		cfg.BlockwiseEnable = false
		options.WithMux(router).UDPClientApply(&cfg)
		w = NewCWorld(e, CWorldCfg{Transport: tr, UDP: cfg})
	} else {
		w = NewCWorld(e, CWorldCfg{Transport: tr, TCPOpts: []tcp.Option{options.WithMux(router), options.WithCloseSocket()}})
	}
	if w == nil {
		return
	}
	e.Real("mux.Router behind a real connection (WithMux glue, request decoding incl. skipped options)")
	e.Wait()
	w.Pump()
	var texts []string
	for _, p := range pats {
		texts = append(texts, p.text)
	}
	e.Logf("cfg transport=%s patterns=%v", tr, texts)

	nReq := 1 + t.Choose(4)
	for i := 0; i < nReq; i++ {
		// segments: derived from a pattern (so that matches are likely), then perturbed
		var segs []string
		p := pats[t.Choose(len(pats))]
		for _, s := range p.segs {
			switch {
			case s.name == "":
				segs = append(segs, s.lit)
			case s.class == 1:
				segs = append(segs, []string{"7", "42", "x"}[t.Choose(3)])
			case s.class == 2:
				segs = append(segs, []string{"abc", "b", "z"}[t.Choose(3)])
			default:
				segs = append(segs, []string{"x", "a", "bob"}[t.Choose(3)])
			}
		}
		switch t.Weighted(4, 2, 2, 1, 1) {
		case 1: // a trailing empty segment: "/a/"
			segs = append(segs, "")
			e.Probe("wire.emptySegment")
		case 2: // an empty segment in the middle: "/dir//x"
			if len(segs) > 0 {
				k := t.Choose(len(segs))
				segs = append(segs[:k], append([]string{""}, segs[k:]...)...)
				e.Probe("wire.emptySegment")
			}
		case 3:
			segs = append(segs, "extra")
		case 4:
			if len(segs) > 0 {
				segs = segs[:len(segs)-1]
			}
		}
		var opts []WOpt
		junk := t.Weighted(3, 1, 1, 1)
		switch junk {
		case 1:
			opts = append(opts, WOpt{Num: OptETag, Val: nil}) // ETag of length 0: illegal, skipped by the decoder
		case 2:
			opts = append(opts, WOpt{Num: OptETag, Val: bytes.Repeat([]byte{1}, 9)}) // ETag of length 9: illegal, skipped
		case 3:
			opts = append(opts, WOpt{Num: 3, Val: nil}) // empty Uri-Host: illegal, skipped
		}
		if junk != 0 {
			e.Probe("wire.skippedOptionBeforePath")
			e.NonTrivial()
		}
		for _, s := range segs {
			opts = append(opts, WOpt{Num: OptURIPath, Val: []byte(s)})
		}
		path := "/" + strings.Join(segs, "/")
		m := &WMsg{Type: TCON, Code: 1, MID: w.NextPeerMID(), Token: []byte{0x17, byte(i)}, Opts: opts}
		it := w.Queue(m, fmt.Sprintf("request %d path=%q junk=%d", i, path, junk))
		it.NoDup, it.NoDrop = true, true
		e.Logf("peer sends request %d: segments %q (path %q), skipped-option variant %d", i, segs, path, junk)
		e.mu.Lock()
		before := len(hits)
		e.mu.Unlock()
		w.Emit(it, false)
		e.Wait()
		w.Pump()
		e.mu.Lock()
		got := append([]hit(nil), hits[before:]...)
		e.mu.Unlock()
		if len(got) != 1 {
			e.Violate("C17.R5", "not-exactly-one-handler:wire", "request %d (path %q): %d handlers ran", i, path, len(got))
			continue
		}
		h := got[0]
		// reference: the longest matching patterns
		best, bestLen := map[string]map[string]string{}, -1
		for _, q := range pats {
			if ok, vars := c17Match(q, path); ok {
				if len(q.text) > bestLen {
					best, bestLen = map[string]map[string]string{}, len(q.text)
				}
				if len(q.text) == bestLen {
					best[q.text] = vars
				}
			}
		}
		switch {
		case bestLen < 0 && h.pattern != "":
			e.Violate("C17.R1", "dispatched-to-non-matching-pattern:wire", "path %q (segments %q) was dispatched to the handler of %q; no registered pattern matches it", path, segs, h.pattern)
		case bestLen >= 0 && h.pattern == "":
			e.Violate("C17.R3", "default-although-a-route-matches:wire", "path %q (segments %q, skipped-option variant %d) went to the default handler although %v match; the handler saw path %q", path, segs, junk, keysOf(best), h.path)
		case bestLen >= 0:
			want, ok := best[h.pattern]
			if !ok {
				if m, _ := c17Match(patByTextOf(pats, h.pattern), path); !m {
					e.Violate("C17.R1", "dispatched-to-non-matching-pattern:wire", "path %q (segments %q) was dispatched to the handler of %q, which does not match it", path, segs, h.pattern)
				} else {
					e.Violate("C17.R2", "not-a-longest-matching-route:wire", "path %q was dispatched to %q although %v are longer matches", path, h.pattern, keysOf(best))
				}
				break
			}
			if fmt.Sprint(want) != fmt.Sprint(h.vars) {
				e.Violate("C17.R4", "route-variables-differ:wire", "path %q pattern %q: handler saw variables %v, reference matcher %v", path, h.pattern, h.vars, want)
			}
		}
		e.Sleep(time.Millisecond)
	}
}

func keysOf(m map[string]map[string]string) []string {
	var out []string
	for k := range m {
		out = append(out, k)
	}
	for i := range out {
		for j := i + 1; j < len(out); j++ {
			if out[j] < out[i] {
				out[i], out[j] = out[j], out[i]
			}
		}
	}
	return out
}

func patByTextOf(pats []c17Pattern, text string) c17Pattern {
	for _, p := range pats {
		if p.text == text {
			return p
		}
	}
	return c17Pattern{text: text}
}
