package sim

import (
	"bytes"
	"context"
	"fmt"
	"net"
	"sort"
	"sync"
	"time"

	dtlsServer "github.com/plgd-dev/go-coap/v3/dtls/server"
	"github.com/plgd-dev/go-coap/v3/message"
	"github.com/plgd-dev/go-coap/v3/message/pool"
	coapNet "github.com/plgd-dev/go-coap/v3/net"
	"github.com/plgd-dev/go-coap/v3/net/blockwise"
	"github.com/plgd-dev/go-coap/v3/net/client"
	"github.com/plgd-dev/go-coap/v3/net/monitor/inactivity"
	"github.com/plgd-dev/go-coap/v3/tcp"
	udpClient "github.com/plgd-dev/go-coap/v3/udp/client"
)

// ClientAPI is the part of the connection API shared by datagram and stream connections.
type ClientAPI interface {
	Get(ctx context.Context, path string, opts ...message.Option) (*pool.Message, error)
	Delete(ctx context.Context, path string, opts ...message.Option) (*pool.Message, error)
	Do(req *pool.Message) (*pool.Message, error)
	DoObserve(req *pool.Message, observeFunc func(req *pool.Message)) (client.Observation, error)
	Observe(ctx context.Context, path string, observeFunc func(req *pool.Message), opts ...message.Option) (client.Observation, error)
	Ping(ctx context.Context) error
	WriteMessage(req *pool.Message) error
	AcquireMessage(ctx context.Context) *pool.Message
	ReleaseMessage(m *pool.Message)
	Close() error
	Context() context.Context
	Done() <-chan struct{}
	AddOnClose(f func())
	CheckExpirations(now time.Time)
	GetToken() (message.Token, error)
	RemoteAddr() net.Addr
}

// Transport kinds.
const (
	TrUDP  = "udp"
	TrDTLS = "dtls"
	TrTCP  = "tcp"
	TrTLS  = "tls"
)

func IsDatagram(tr string) bool { return tr == TrUDP || tr == TrDTLS }

// OutItem is a message the scripted peer has decided to send; the simulator decides when (and how often) it arrives.
type OutItem struct {
	M       *WMsg
	Raw     []byte // overrides M when set
	Label   string
	Emitted int
	Gone    bool
	NoDup   bool
	NoDrop  bool
}

// CWorld: one real connection (any of the four transports) and a scripted peer.
type CWorld struct {
	E         *Env
	Transport string
	API       ClientAPI
	UCC       *udpClient.Conn // datagram transports
	TEP       *TCPEndpoint    // stream transports
	U         *UWorld         // TrUDP
	PC        *SimPacketConn  // TrDTLS
	SC        *SimConn        // TrTCP / TrTLS
	Outbox    []*OutItem
	OnRecv    func(m *WMsg)               // the peer received a message from the endpoint (simulator goroutine)
	OnEmit    func(it *OutItem, dup bool) // right before an item is handed to the endpoint
	PeerMID   uint16
	rx        []byte
	DropW     int // weight of dropping an outbox item (datagram transports)
	DupW      int // weight of delivering an outbox item twice over time
	SegW      int // weight of segmenting a stream delivery into two reads
	errMu     sync.Mutex
	Errs      []string
	ticks     []func(now time.Time) bool
	Recv      int
}

type CWorldCfg struct {
	Transport   string
	UDP         udpClient.Config // datagram transports (start from SimUDPConfig)
	UDPMod      func(*UDPEndpointCfg)
	TCPOpts     []tcp.Option // stream transports
	Handshake   func(ctx context.Context) error
	Monitor     udpClient.InactivityMonitor
	CloseSocket bool
	// OwnSocket: the application owns the socket (datagram transports; on stream transports leave out WithCloseSocket)
	OwnSocket bool
	PreStart    func(sc *SimConn) // stream transports: runs before the library gets the socket
}

func NewCWorld(e *Env, c CWorldCfg) *CWorld {
	w := &CWorld{E: e, Transport: c.Transport, PeerMID: 40000}
	switch c.Transport {
	case TrUDP:
		w.U = NewUWorld(e, c.UDP, func(u *UDPEndpointCfg) {
			if c.Monitor != nil {
				u.Monitor = c.Monitor
			}
			u.OwnSocket = c.OwnSocket
			if c.UDPMod != nil {
				c.UDPMod(u)
			}
		})
		w.UCC = w.U.EP.CC
		w.API = w.UCC
		w.U.OnPeer = func(m *WMsg, _ *Dgram) {
			w.Recv++
			e.Pool.CheckWire(m)
			if w.OnRecv != nil {
				w.OnRecv(m)
			}
		}
	case TrDTLS:
		e.Real("udp/client.Conn", "dtls/server.Session", "net.Conn (context read/write, write lock)", "net/client", "net/observation", "net/responsewriter", "message/pool", "pkg/sync.Map", "pkg/cache", "udp/client.MutexMap", "udp/coder")
		e.Stub("dtls.Client wiring (replicated: needs *dtls.Conn)", "periodic runner (WithPeriodicRunner seam: simulator ticks)")
		w.PC = NewPacketConn(e, UDPAddr("10.0.0.1", 5000), UDPAddr("10.0.0.2", 5684))
		w.PC.Handshake = c.Handshake
		cfg := c.UDP
		cfg.Errors = func(err error) {
			if coapNet.IsCancelOrCloseError(err) {
				return
			}
			w.errMu.Lock()
			w.Errs = append(w.Errs, err.Error())
			w.errMu.Unlock()
		}
		if cfg.MessagePool == nil {
			cfg.MessagePool = pool.New(0, 0)
		}
		if e.PoolCapacity > 0 {
			cfg.MessagePool = pool.New(e.PoolCapacity, 2048)
		}
		createBlockWise := func(*udpClient.Conn) *blockwise.BlockWise[*udpClient.Conn] { return nil }
		if cfg.BlockwiseEnable {
			e.Real("net/blockwise")
			createBlockWise = func(cc *udpClient.Conn) *blockwise.BlockWise[*udpClient.Conn] {
				v := cc
				return blockwise.New(v, cfg.BlockwiseTransferTimeout, cfg.Errors, func(token message.Token) (*pool.Message, bool) {
					return v.GetObservationRequest(token)
				})
			}
		}
		var monitor udpClient.InactivityMonitor = inactivity.NewNilMonitor[*udpClient.Conn]()
		if c.Monitor != nil {
			monitor = c.Monitor
		}
		l := coapNet.NewConn(w.PC)
		session := dtlsServer.NewSession(cfg.Ctx, l, cfg.MaxMessageSize, cfg.MTU, !c.OwnSocket)
		cc := udpClient.NewConnWithOpts(session, &cfg, udpClient.WithBlockWise(createBlockWise), udpClient.WithInactivityMonitor(monitor))
		go func() { _ = cc.Run() }()
		e.OnCleanup(func() { _ = cc.Close() })
		w.UCC = cc
		w.API = cc
	case TrTCP, TrTLS:
		a, _ := NewStream(e, TCPAddr("10.0.0.1", 40000), TCPAddr("10.0.0.2", 5683))
		w.SC = a
		if c.PreStart != nil {
			c.PreStart(a)
		}
		ep, err := NewTCPEndpoint(e, a, TCPEndpointCfg{TLS: c.Transport == TrTLS, Handshake: c.Handshake, Opts: c.TCPOpts})
		if err != nil {
			e.Violate("HARNESS", "client-setup", "tcp.Client failed: %v", err)
			return nil
		}
		w.TEP = ep
		w.API = ep.CC
	}
	return w
}

func (w *CWorld) NextPeerMID() uint16 { w.PeerMID++; return w.PeerMID }

// Queue puts a message into the peer's outbox.
func (w *CWorld) Queue(m *WMsg, label string) *OutItem {
	it := &OutItem{M: m, Label: label}
	w.Outbox = append(w.Outbox, it)
	return it
}

func (w *CWorld) encode(it *OutItem) []byte {
	if it.Raw != nil {
		return it.Raw
	}
	if IsDatagram(w.Transport) {
		return EncodeUDP(it.M)
	}
	return EncodeTCP(it.M)
}

// Emit hands an outbox item to the endpoint now (the caller runs to quiescence afterwards).
func (w *CWorld) Emit(it *OutItem, keep bool) {
	it.Emitted++
	if !keep {
		it.Gone = true
	}
	if w.OnEmit != nil {
		w.OnEmit(it, it.Emitted > 1)
	}
	b := w.encode(it)
	switch w.Transport {
	case TrUDP:
		d := w.U.N.Inject(w.U.PeerAddr, w.U.EPAddr, b)
		w.U.N.Take(d)
		w.U.N.Deliver(d)
	case TrDTLS:
		w.PC.Deliver(b)
	default:
		w.SC.InjectIn(b)
		if w.SegW > 0 && len(b) > 1 && w.E.Tape.Chance(w.SegW, w.SegW+6) {
			cut := 1 + w.E.Tape.Choose(len(b)-1)
			w.E.Fault("stream.segment")
			w.SC.ReleaseIn(cut)
			w.E.Wait()
			w.Pump()
		}
		w.SC.ReleaseIn(1 << 30)
	}
}

func (w *CWorld) prune() {
	out := w.Outbox[:0]
	for _, it := range w.Outbox {
		if !it.Gone {
			out = append(out, it)
		}
	}
	w.Outbox = out
}

// Events: emission (any order = reordering, later = delay), duplication and loss of outbox items.
func (w *CWorld) Events(weight int) []Event {
	e := w.E
	w.prune()
	var evs []Event
	for _, it := range w.Outbox {
		it := it
		evs = append(evs, Event{Label: "emit", W: weight, Do: func() {
			e.Logf("peer->ep %s %s", it.Label, w.descr(it))
			w.Emit(it, false)
		}})
		if w.DupW > 0 && it.Emitted < 2 && !it.NoDup {
			evs = append(evs, Event{Label: "emit+keep", W: w.DupW, Do: func() {
				e.Fault("msg.dup")
				e.Logf("peer->ep (a copy stays in flight) %s %s", it.Label, w.descr(it))
				w.Emit(it, true)
			}})
		}
		if w.DropW > 0 && IsDatagram(w.Transport) && !it.NoDrop {
			evs = append(evs, Event{Label: "lose", W: w.DropW, Do: func() {
				e.Fault("msg.drop")
				e.Logf("lost peer->ep %s", it.Label)
				it.Gone = true
			}})
		}
	}
	return evs
}

func (w *CWorld) descr(it *OutItem) string {
	if it.Raw != nil {
		return fmt.Sprintf("raw[%d]", len(it.Raw))
	}
	if IsDatagram(w.Transport) {
		return it.M.String()
	}
	return fmt.Sprintf("%d.%02d tok=%x opts=%d pl=%d", it.M.Code>>5, it.M.Code&31, it.M.Token, len(it.M.Opts), len(it.M.Payload))
}

// Pump lets the scripted peer read everything the endpoint has written (call after every Wait).
func (w *CWorld) Pump() {
	switch w.Transport {
	case TrUDP:
		for _, d := range w.U.N.PendingList() {
			if d.Dst.String() == w.U.PeerAddr.String() {
				w.U.N.Take(d)
				w.U.N.Deliver(d)
			}
		}
	case TrDTLS:
		recs := w.PC.TakeOut()
		// records written within one phase by a map-ordered sweep (retransmissions) or by several
		// goroutines have no defined order: canonicalise (datagrams promise no order anyway)
		sort.Slice(recs, func(i, j int) bool { return bytes.Compare(recs[i], recs[j]) < 0 })
		for _, b := range recs {
			w.E.Pool.CheckWireRaw(b)
			m, err := DecodeUDP(b)
			if err != nil {
				w.E.Violate("HARNESS", "endpoint-sent-garbage", "peer cannot parse record: %v", err)
				continue
			}
			w.Recv++
			w.E.Pool.CheckWire(m)
			if w.OnRecv != nil {
				w.OnRecv(m)
			}
		}
	default:
		w.rx = append(w.rx, w.SC.TakeOut()...)
		for len(w.rx) > 0 {
			m, n, err := DecodeTCP(w.rx)
			if err != nil {
				w.E.Violate("HARNESS", "endpoint-sent-garbage", "peer cannot parse stream: %v", err)
				w.rx = nil
				return
			}
			if n == 0 {
				return
			}
			w.rx = w.rx[n:]
			w.Recv++
			if w.OnRecv != nil {
				w.OnRecv(m)
			}
		}
	}
}

// Step picks one event, applies it, runs to quiescence and pumps the peer.
func (w *CWorld) Step(evs []Event) {
	ev := w.E.Pick(evs)
	ev.Do()
	w.E.Wait()
	w.Pump()
}

// Tick runs the housekeeping of the connection with now.
func (w *CWorld) Tick(now time.Time) {
	if w.TEP != nil {
		w.TEP.Tick(now)
		return
	}
	cc := w.UCC
	go func() {
		if cc.Context().Err() == nil {
			cc.CheckExpirations(now)
		}
	}()
}

// Errors reported through the connection's error callback.
func (w *CWorld) Errors() []string {
	switch {
	case w.U != nil:
		return w.U.EP.Errors()
	case w.TEP != nil:
		return w.TEP.Errors()
	}
	w.errMu.Lock()
	defer w.errMu.Unlock()
	return append([]string(nil), w.Errs...)
}

// TableSizes returns the H-INTRO view of the connection's per-exchange tables.
func (w *CWorld) TableSizes() map[string]int {
	if w.UCC != nil {
		return w.UCC.VerifTableSizes()
	}
	return w.TEP.CC.VerifTableSizes()
}

// CloseSocketByOwner: the harness, as owner of the socket, closes it.
func (w *CWorld) CloseSocketByOwner() {
	switch {
	case w.U != nil:
		_ = w.U.EP.Sock.Close()
	case w.PC != nil:
		_ = w.PC.Close()
	case w.SC != nil:
		_ = w.SC.Close()
	}
}

// PickTransport draws a transport: UDP most often, then TCP, DTLS shim, TLS shim.
func PickTransport(t *Tape) string {
	return []string{TrUDP, TrTCP, TrDTLS, TrTLS}[t.Weighted(4, 3, 2, 1)]
}
