package sim

import (
	"bytes"
	"context"
	"fmt"
	"io"
	"runtime"
	"time"

	"github.com/plgd-dev/go-coap/v3/message"
	"github.com/plgd-dev/go-coap/v3/message/pool"
	"github.com/plgd-dev/go-coap/v3/net/blockwise"
	"github.com/plgd-dev/go-coap/v3/options"
	"github.com/plgd-dev/go-coap/v3/tcp"
)

// C12, request side: during a block-wise upload the library reads the application's request body from its own
// goroutines (the receive path builds the next block when the peer asks for it). Once the request call has
// returned - here: because its context ended - the request message and its body belong to the application
// again, so the call must not return while such a read is in progress. The body reader of this scenario ends the
// caller's context from inside a Read that a library goroutine makes and watches whether the call returns under it.

type c12Reader struct {
	r      *bytes.Reader
	onRead func()
}

func (b *c12Reader) Read(p []byte) (int, error) {
	if b.onRead != nil {
		b.onRead()
	}
	return b.r.Read(p)
}
func (b *c12Reader) Seek(off int64, whence int) (int64, error) { return b.r.Seek(off, whence) }

var _ io.ReadSeeker = (*c12Reader)(nil)

func c12UploadReader(e *Env) {
	t := e.Tape
	tr := []string{TrUDP, TrTCP, TrDTLS}[t.Weighted(3, 2, 1)]
	const bs = 16
	var w *CWorld
	if IsDatagram(tr) {
		cfg := SimUDPConfig(int32(t.Choose(65536)))
		cfg.BlockwiseEnable = true
		cfg.BlockwiseSZX = blockwise.SZX16
		cfg.BlockwiseTransferTimeout = 5 * time.Second
		cfg.TransmissionNStart = 16
		w = NewCWorld(e, CWorldCfg{Transport: tr, UDP: cfg})
	} else {
		w = NewCWorld(e, CWorldCfg{Transport: tr, TCPOpts: []tcp.Option{options.WithBlockwise(true, blockwise.SZX16, 5*time.Second), options.WithCloseSocket(),
			options.WithLimitClientParallelRequest(0), options.WithLimitClientEndpointParallelRequest(0)}})
	}
	if w == nil {
		return
	}
	e.Real("net/blockwise (upload: continuation blocks built from the application's request body by the receive path)")
	e.Wait()
	w.Pump()
	if !IsDatagram(tr) {
		it := w.Queue(&WMsg{Code: 0xe1, Token: []byte{1}, Opts: []WOpt{{Num: OptTCPBlockWise}}}, "csm")
		w.Emit(it, false)
		e.Wait()
		w.Pump()
	}
	nBlocks := 3 + t.Choose(3)
	body := Body(950, nBlocks*bs-t.Choose(bs))
	interruptAt := 1 + t.Choose(nBlocks-1) // the read for this block ends the caller's context
	e.Logf("cfg transport=%s blocks=%d interrupt-at-block=%d", tr, nBlocks, interruptAt)

	// the peer acknowledges every block with 2.31 Continue and the last one with 2.04
	w.OnRecv = func(m *WMsg) {
		if IsDatagram(tr) && (m.Type == TACK || m.Type == TRST) {
			return
		}
		if m.Code != 2 {
			return
		}
		b1, ok := m.OptUint(OptBlock1)
		if !ok {
			return
		}
		num, more, szx := ParseBlock(b1)
		code := byte(0x5f) // 2.31
		if !more {
			code = 0x44
		}
		var it *OutItem
		opts := []WOpt{UintOpt(OptBlock1, BlockOpt(num, more, szx))}
		if IsDatagram(tr) && m.Type == TCON {
			it = w.Queue(&WMsg{Type: TACK, Code: code, MID: m.MID, Token: m.Token, Opts: opts}, fmt.Sprintf("continue(block %d)", num))
		} else {
			it = w.Queue(&WMsg{Type: TNON, Code: code, MID: w.NextPeerMID(), Token: m.Token, Opts: opts}, fmt.Sprintf("continue(block %d)", num))
		}
		it.NoDup, it.NoDrop = true, true
	}
	call := e.NewCall("upload", 0, nil, 1000*time.Second)
	var callerG uint64
	reads := 0
	fired := false
	rd := &c12Reader{r: bytes.NewReader(body)}
	rd.onRead = func() {
		g := goid()
		e.mu.Lock()
		reads++
		byLibrary := callerG != 0 && g != callerG
		blockNo := 0
		if pos, err := rd.r.Seek(0, io.SeekCurrent); err == nil {
			blockNo = int(pos) / bs
		}
		trigger := byLibrary && !fired && blockNo >= interruptAt
		if trigger {
			fired = true
		}
		e.mu.Unlock()
		if !trigger {
			return
		}
		// a library goroutine is reading the application's body right now: the application gives the request up
		e.Probe("upload.contextEndedDuringLibraryRead")
		e.NonTrivial()
		e.CancelCall(call)
		for i := 0; i < 6; i++ {
			runtime.Gosched()
		}
		if call.Done() {
			e.Violate("C12.R6", "request-call-returned-while-library-reads-the-request", "the request call returned (its context had ended) while a library goroutine was inside Read of the request body (block %d): the application has its message back and the library is still using it", blockNo)
		}
	}
	e.Start(call, func(ctx context.Context) (*pool.Message, error) {
		e.mu.Lock()
		callerG = goid()
		e.mu.Unlock()
		req := w.API.AcquireMessage(ctx)
		defer w.API.ReleaseMessage(req)
		tok, _ := w.API.GetToken()
		if err := req.SetupPost("/upload", tok, message.AppOctets, rd, QueryOpt(0)); err != nil {
			return nil, err
		}
		return w.API.Do(req)
	}, w.API.ReleaseMessage)
	e.Wait()
	w.Pump()
	for step := 0; step < 40 && e.Budget() && !call.Done(); step++ {
		evs := w.Events(5)
		if len(evs) == 0 {
			break
		}
		w.Step(evs)
	}
	e.Wait()
}
