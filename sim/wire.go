package sim

import (
	"encoding/binary"
	"errors"
	"fmt"
	"sort"
)

// Independent minimal CoAP codec (RFC 7252 §3, RFC 8323 §3.2) used by scripted
// peers and oracles, so that the library's own coders are not their own judge.

const (
	TCON = 0
	TNON = 1
	TACK = 2
	TRST = 3
)

const (
	OptIfMatch       = 1
	OptETag          = 4
	OptObserve       = 6
	OptURIPath       = 11
	OptContentFormat = 12
	OptMaxAge        = 14
	OptURIQuery      = 15
	OptBlock2        = 23
	OptBlock1        = 27
	OptSize2         = 28
	OptSize1         = 60
	OptNoResponse    = 258
	OptTCPMaxMsgSize = 2
	OptTCPBlockWise  = 4
)

type WOpt struct {
	Num uint16
	Val []byte
}

type WMsg struct {
	Type    int // UDP only
	Code    byte
	MID     uint16 // UDP only
	Token   []byte
	Opts    []WOpt
	Payload []byte
}

func (m *WMsg) Opt(num uint16) ([]byte, bool) {
	for _, o := range m.Opts {
		if o.Num == num {
			return o.Val, true
		}
	}
	return nil, false
}

func (m *WMsg) OptAll(num uint16) [][]byte {
	var out [][]byte
	for _, o := range m.Opts {
		if o.Num == num {
			out = append(out, o.Val)
		}
	}
	return out
}

func (m *WMsg) OptUint(num uint16) (uint32, bool) {
	v, ok := m.Opt(num)
	if !ok || len(v) > 4 {
		return 0, false
	}
	var x uint32
	for _, b := range v {
		x = x<<8 | uint32(b)
	}
	return x, true
}

func (m *WMsg) Path() string {
	s := ""
	for _, v := range m.OptAll(OptURIPath) {
		s += "/" + string(v)
	}
	return s
}

func (m *WMsg) Query() string {
	q := m.OptAll(OptURIQuery)
	if len(q) == 0 {
		return ""
	}
	return string(q[0])
}

func UintOpt(num uint16, v uint32) WOpt {
	var b []byte
	switch {
	case v == 0:
	case v < 1<<8:
		b = []byte{byte(v)}
	case v < 1<<16:
		b = []byte{byte(v >> 8), byte(v)}
	case v < 1<<24:
		b = []byte{byte(v >> 16), byte(v >> 8), byte(v)}
	default:
		b = []byte{byte(v >> 24), byte(v >> 16), byte(v >> 8), byte(v)}
	}
	return WOpt{Num: num, Val: b}
}

func (m *WMsg) String() string {
	t := [...]string{"CON", "NON", "ACK", "RST"}[m.Type&3]
	s := fmt.Sprintf("%s %d.%02d mid=%d tok=%x", t, m.Code>>5, m.Code&31, m.MID, m.Token)
	for _, o := range m.Opts {
		s += fmt.Sprintf(" o%d=%x", o.Num, o.Val)
	}
	if len(m.Payload) > 0 {
		if len(m.Payload) > 24 {
			s += fmt.Sprintf(" pl[%d]=%x..", len(m.Payload), m.Payload[:12])
		} else {
			s += fmt.Sprintf(" pl=%q", m.Payload)
		}
	}
	return s
}

func encExt(v int) (nib byte, ext []byte) {
	switch {
	case v < 13:
		return byte(v), nil
	case v < 269:
		return 13, []byte{byte(v - 13)}
	default:
		x := v - 269
		return 14, []byte{byte(x >> 8), byte(x)}
	}
}

func encodeOptsPayload(out []byte, opts []WOpt, payload []byte) []byte {
	so := append([]WOpt(nil), opts...)
	sort.SliceStable(so, func(i, j int) bool { return so[i].Num < so[j].Num })
	prev := 0
	for _, o := range so {
		dn, de := encExt(int(o.Num) - prev)
		ln, le := encExt(len(o.Val))
		out = append(out, dn<<4|ln)
		out = append(out, de...)
		out = append(out, le...)
		out = append(out, o.Val...)
		prev = int(o.Num)
	}
	if len(payload) > 0 {
		out = append(out, 0xff)
		out = append(out, payload...)
	}
	return out
}

func decodeOptsPayload(b []byte, m *WMsg) error {
	prev := 0
	for len(b) > 0 {
		if b[0] == 0xff {
			if len(b) == 1 {
				return errors.New("payload marker without payload")
			}
			m.Payload = append([]byte(nil), b[1:]...)
			return nil
		}
		dn, ln := int(b[0]>>4), int(b[0]&15)
		b = b[1:]
		rd := func(n int) (int, error) {
			switch n {
			case 13:
				if len(b) < 1 {
					return 0, errors.New("short")
				}
				v := int(b[0]) + 13
				b = b[1:]
				return v, nil
			case 14:
				if len(b) < 2 {
					return 0, errors.New("short")
				}
				v := int(binary.BigEndian.Uint16(b)) + 269
				b = b[2:]
				return v, nil
			case 15:
				return 0, errors.New("reserved nibble")
			}
			return n, nil
		}
		d, err := rd(dn)
		if err != nil {
			return err
		}
		l, err := rd(ln)
		if err != nil {
			return err
		}
		if len(b) < l {
			return errors.New("short option value")
		}
		prev += d
		m.Opts = append(m.Opts, WOpt{Num: uint16(prev), Val: append([]byte(nil), b[:l]...)})
		b = b[l:]
	}
	return nil
}

// EncodeUDP encodes a datagram-framed message.
func EncodeUDP(m *WMsg) []byte {
	out := []byte{byte(1<<6 | (m.Type&3)<<4 | len(m.Token)), m.Code, byte(m.MID >> 8), byte(m.MID)}
	out = append(out, m.Token...)
	return encodeOptsPayload(out, m.Opts, m.Payload)
}

// DecodeUDP decodes a datagram-framed message.
func DecodeUDP(b []byte) (*WMsg, error) {
	if len(b) < 4 {
		return nil, errors.New("short header")
	}
	if b[0]>>6 != 1 {
		return nil, errors.New("bad version")
	}
	tkl := int(b[0] & 15)
	if tkl > 8 || len(b) < 4+tkl {
		return nil, errors.New("bad token length")
	}
	m := &WMsg{Type: int(b[0]>>4) & 3, Code: b[1], MID: binary.BigEndian.Uint16(b[2:4])}
	m.Token = append([]byte(nil), b[4:4+tkl]...)
	if err := decodeOptsPayload(b[4+tkl:], m); err != nil {
		return nil, err
	}
	return m, nil
}

// EncodeTCP encodes a stream-framed message (RFC 8323 §3.2).
func EncodeTCP(m *WMsg) []byte {
	body := encodeOptsPayload(nil, m.Opts, m.Payload)
	return append(TCPHeader(len(body), len(m.Token), m.Code, m.Token), body...)
}

// TCPHeader builds the header for a declared options+payload length (which may
// exceed what is then actually sent, for oversize-frame faults).
func TCPHeader(bodyLen uint64OrInt, tkl int, code byte, token []byte) []byte {
	l := uint64(bodyLen)
	var out []byte
	switch {
	case l < 13:
		out = []byte{byte(l)<<4 | byte(tkl)}
	case l < 269:
		out = []byte{13<<4 | byte(tkl), byte(l - 13)}
	case l < 65805:
		x := l - 269
		out = []byte{14<<4 | byte(tkl), byte(x >> 8), byte(x)}
	default:
		x := l - 65805
		out = []byte{15<<4 | byte(tkl), byte(x >> 24), byte(x >> 16), byte(x >> 8), byte(x)}
	}
	out = append(out, code)
	out = append(out, token...)
	return out
}

type uint64OrInt = int

// DecodeTCP decodes one frame from b; returns the message and bytes consumed, or n=0 if incomplete.
func DecodeTCP(b []byte) (*WMsg, int, error) {
	if len(b) < 1 {
		return nil, 0, nil
	}
	ln, tkl := int(b[0]>>4), int(b[0]&15)
	if tkl > 8 {
		return nil, 0, errors.New("bad token length")
	}
	p := 1
	var l uint64
	switch ln {
	case 13:
		if len(b) < 2 {
			return nil, 0, nil
		}
		l = uint64(b[1]) + 13
		p = 2
	case 14:
		if len(b) < 3 {
			return nil, 0, nil
		}
		l = uint64(binary.BigEndian.Uint16(b[1:3])) + 269
		p = 3
	case 15:
		if len(b) < 5 {
			return nil, 0, nil
		}
		l = uint64(binary.BigEndian.Uint32(b[1:5])) + 65805
		p = 5
	default:
		l = uint64(ln)
	}
	total := uint64(p) + 1 + uint64(tkl) + l
	if uint64(len(b)) < total {
		return nil, 0, nil
	}
	m := &WMsg{Code: b[p]}
	m.Token = append([]byte(nil), b[p+1:p+1+tkl]...)
	if err := decodeOptsPayload(b[p+1+tkl:total], m); err != nil {
		return nil, 0, err
	}
	return m, int(total), nil
}

// BlockOpt encodes an RFC 7959 block option value.
func BlockOpt(num uint32, more bool, szx uint32) uint32 {
	v := num<<4 | szx
	if more {
		v |= 8
	}
	return v
}

// ParseBlock decodes an RFC 7959 block option value.
func ParseBlock(v uint32) (num uint32, more bool, szx uint32) {
	return v >> 4, v&8 != 0, v & 7
}
