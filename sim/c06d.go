package sim

import (
	"bytes"
	"context"
	"time"

	"github.com/plgd-dev/go-coap/v3/message/pool"
)

// C06, DTLS client whose handshake has not been run when the first request is issued. pion/dtls v3 runs the handshake
// inside the first read or write, so dtls.Dial returns before it and every example issues its first request into it.
// The request cannot leave before the handshake is over; a handshake of several round trips on a slow or lossy link
// lasts longer than ACK_TIMEOUT. The first *transmission* is the moment the datagram leaves - retransmission and
// exhaustion are counted from there (the statement: "the k-th copy no earlier than k x ACK_TIMEOUT after the first").
func c06LazyHandshakeRun(e *Env) {
	t := e.Tape
	ackTO := []time.Duration{2 * time.Second, time.Second}[t.Choose(2)]
	maxRetx := []uint32{1, 2, 4}[t.Choose(3)]
	hs := []time.Duration{ackTO / 2, ackTO * 3 / 2, ackTO*time.Duration(maxRetx+1) + ackTO/2}[t.Choose(3)]
	tickEvery := []time.Duration{ackTO / 4, ackTO / 10, ackTO}[t.Choose(3)]
	cfg := SimUDPConfig(int32(t.Choose(60000)))
	cfg.TransmissionAcknowledgeTimeout = ackTO
	cfg.TransmissionMaxRetransmit = maxRetx
	cfg.TransmissionNStart = 4
	cfg.BlockwiseEnable = false
	handshake := func(ctx context.Context) error {
		select {
		case <-time.After(hs):
			return nil
		case <-ctx.Done():
			return ctx.Err()
		}
	}
	w := NewCWorld(e, CWorldCfg{Transport: TrDTLS, UDP: cfg, Handshake: handshake})
	if w == nil {
		return
	}
	e.Probe("conn.dtlsClientLazyHandshake")
	type copyAt struct {
		m  *WMsg
		at time.Duration
	}
	var copies []copyAt
	answered := false
	w.OnRecv = func(m *WMsg) {
		if m.Code < 1 || m.Code > 4 {
			return
		}
		copies = append(copies, copyAt{m, e.Now()})
		if !answered {
			// nothing is lost and the peer answers the first copy at once
			answered = true
			it := w.Queue(&WMsg{Type: TACK, Code: 0x45, MID: m.MID, Token: m.Token, Payload: []byte("hello")}, "answer")
			it.NoDup, it.NoDrop = true, true
		}
	}
	e.Logf("cfg ackTimeout=%v maxRetransmit=%d handshake=%v tick=%v", ackTO, maxRetx, hs, tickEvery)
	c := e.NewCall("get", 900, nil, 1000*time.Second)
	e.Start(c, func(ctx context.Context) (*pool.Message, error) { return w.API.Get(ctx, "/x") }, w.API.ReleaseMessage)
	e.Wait()
	w.Pump()
	// the housekeeping has one goroutine: a tick that is still busy (its retransmission waits for the handshake) keeps
	// the next one from happening
	tickBusy := false
	tick := func() {
		e.mu.Lock()
		busy := tickBusy
		if !busy {
			tickBusy = true
		}
		e.mu.Unlock()
		if busy {
			e.Probe("tick.skippedBehindABusyOne")
			return
		}
		now := time.Now()
		go func() {
			if w.UCC.Context().Err() == nil {
				w.UCC.CheckExpirations(now)
			}
			e.mu.Lock()
			tickBusy = false
			e.mu.Unlock()
		}()
	}
	deliver := func() {
		for _, it := range append([]*OutItem(nil), w.Outbox...) {
			w.Emit(it, false)
			e.Wait()
			w.Pump()
		}
		w.prune()
	}
	end := hs + ackTO*time.Duration(maxRetx+3)
	for e.Now() < end && e.Budget() {
		e.Sleep(tickEvery)
		tick()
		e.Wait()
		w.Pump()
		deliver()
	}
	if e.Now() >= hs {
		e.NonTrivial()
	}
	if hs > ackTO {
		e.Probe("handshake.longerThanAckTimeout")
	}
	if len(copies) == 0 {
		e.Violate("C06.R1", "request-never-transmitted:lazy-handshake", "the handshake was over at %v; no copy of the request had left by %v", hs, e.Now())
		return
	}
	t0 := copies[0].at
	for k, cp := range copies {
		if k == 0 {
			continue
		}
		if !bytes.Equal(EncodeUDP(cp.m), EncodeUDP(copies[0].m)) {
			e.Violate("C06.R3", "copies-differ:lazy-handshake", "copy %d differs from the first transmission", k)
		}
		if cp.at < t0+time.Duration(k)*ackTO {
			e.Violate("C06.R2", "retransmitted-too-early:clock-started-before-the-first-transmission", "the request first left at %v (when the handshake was over); copy %d left at %v, not before %v is allowed (ACK_TIMEOUT %v)", t0, k, cp.at, t0+time.Duration(k)*ackTO, ackTO)
			break
		}
	}
	if !c.Done() {
		e.Violate("C06.R5", "answered-call-did-not-return:lazy-handshake", "the first transmission (at %v) was answered at once; the call has not returned at %v", t0, e.Now())
		return
	}
	if ri, err := c.Result(); err != nil || ri == nil || string(ri.Payload) != "hello" {
		e.Violate("C06.R5", "answered-call-failed:given-up-before-the-first-transmission", "the first transmission (at %v) was answered at once, before any attempt could have been exhausted; the call returned %v, %v", t0, ri, err)
	}
}
