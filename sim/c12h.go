package sim

import (
	"context"
	"time"

	"github.com/plgd-dev/go-coap/v3/message/pool"
)

// C12, "late token handler": the part of a datagram request's token handler that runs after the response has been
// handed to the caller. From that moment the request belongs to the caller again, who releases it (Client.Get does so
// itself when it returns). Read-after-release has no effect of its own, so the scenario gives it one: a ping is
// outstanding whose message ID equals the value the tracker writes into released messages. If the handler reads the
// request's message ID after the release, it finds the ping's continuation under that key and completes it - a pong
// callback without a pong.

func c12LateTokenHandler(e *Env) {
	t := e.Tape
	tr := []string{TrUDP, TrDTLS}[t.Choose(2)]
	// the first message ID the connection hands out is the poison value
	cfg := SimUDPConfig(int32(poisonMID) + 0x7fff - 1)
	cfg.TransmissionNStart = 16
	cfg.TransmissionAcknowledgeTimeout = 1000 * time.Second
	cfg.BlockwiseEnable = false
	w := NewCWorld(e, CWorldCfg{Transport: tr, UDP: cfg})
	if w == nil {
		return
	}
	e.Wait()
	w.Pump()
	pongs := 0
	var pingMID int32 = -1
	var reqs []*WMsg
	w.OnRecv = func(m *WMsg) {
		switch {
		case m.Type == TCON && m.Code == 0:
			pingMID = int32(m.MID)
		case m.Code >= 1 && m.Code <= 4:
			reqs = append(reqs, m)
		}
	}
	cancelPing, err := w.UCC.AsyncPing(func() {
		e.mu.Lock()
		pongs++
		e.mu.Unlock()
	})
	if err != nil {
		return
	}
	e.OnCleanup(cancelPing)
	e.Wait()
	w.Pump()
	if pingMID != poisonMID {
		e.Probe("latehandler.canaryNotArmed")
		return
	}
	e.Logf("cfg transport=%s: a ping with message ID %#x is outstanding, the peer never answers it", tr, pingMID)
	e.EnablePark("udp.doInternal.afterHandOver", 0)
	nReq := 1 + t.Choose(2)
	for i := 0; i < nReq; i++ {
		c := e.NewCall("get", 700+i, nil, 100*time.Second)
		c.ReleaseAtOnce = true
		e.Start(c, func(ctx context.Context) (*pool.Message, error) { return w.API.Get(ctx, "/x", QueryOpt(700+i)) }, w.API.ReleaseMessage)
		e.Wait()
		w.Pump()
		if len(reqs) != i+1 {
			return
		}
		m := reqs[i]
		var a *WMsg
		if m.Type == TCON && t.Chance(2, 3) {
			a = &WMsg{Type: TACK, Code: 0x45, MID: m.MID, Token: m.Token, Payload: []byte("x")}
		} else {
			a = &WMsg{Type: TNON, Code: 0x45, MID: w.NextPeerMID(), Token: m.Token, Payload: []byte("x")}
		}
		it := w.Queue(a, "answer")
		it.NoDup, it.NoDrop = true, true
		w.Emit(it, false)
		e.Wait() // the call returns; Client.Get has released the request
		w.Pump()
		if !c.Done() {
			// a separate response to a confirmable request: the call returns once the handler has also ended the wait
			// for the acknowledgement - nothing is released before that
			for _, pg := range e.Parked() {
				e.Resume(pg)
			}
			e.Wait()
			w.Pump()
			if !c.Done() {
				e.Violate("C12.R6", "answered-call-did-not-return", "the answer was handed to the connection and Get has not returned")
				return
			}
			continue
		}
		for _, pg := range e.Parked() {
			e.NonTrivial()
			e.Probe("latehandler.resumedAfterRequestWasReleased")
			e.Logf("the token handler goes on after Get has returned and released its request")
			e.Resume(pg)
		}
		e.Wait()
		w.Pump()
		e.mu.Lock()
		p := pongs
		e.mu.Unlock()
		if p > 0 {
			e.Violate("C12.R6", "released-request-read:message-id-used-as-key", "the ping's pong callback ran %d time(s) although the peer never answered the ping: the request's token handler read the message ID of the request after Get had returned and released it (the tracker had written %#x, the ping's message ID, into the released object) and completed the continuation it found under that ID", p, poisonMID)
			return
		}
		e.Sleep(time.Millisecond)
	}
}
