package sim

import (
	"bytes"
	"context"
	"fmt"
	"time"

	"github.com/plgd-dev/go-coap/v3/message"
	"github.com/plgd-dev/go-coap/v3/message/pool"
	"github.com/plgd-dev/go-coap/v3/net/blockwise"
	"github.com/plgd-dev/go-coap/v3/net/client"
	"github.com/plgd-dev/go-coap/v3/options"
	"github.com/plgd-dev/go-coap/v3/tcp"
)

// C08 — observers only ever see a resource move forward in time.

const observeFreshness = 128 * time.Second // RFC 7641 3.4

func init() {
	Register(&PropDef{
		ID:    "C08",
		Title: "Observers only ever see a resource move forward in time",
		Rule: "1-3 observations on one real connection (UDP, DTLS shim, TCP, TLS shim; block-wise on/off); a scripted notifier answers registrations with 2.05/2.03/4.04/5.00/2.05-without-Observe and sends notification streams with sequence numbers around 0, 2^23 and 2^24-1, permuted, duplicated, with inter-arrival times around 128 s (+-1 ms), for registered, cancelled and never-registered tokens; cancellation at any point; S-OBS/block-wise-notifications: multi-block notifications (RFC 7959 2.6) of a resource that keeps changing while the connection fetches the remaining blocks; " +
			"non-trivial = at least one notification was delivered out of order, duplicated or across the 128 s window; distinct = distinct event-log hash",
		Scenarios: []Scenario{{Name: "S-OBS/scripted-notifier", Weight: 4, Run: c08Run}, {Name: "S-OBS/block-wise-notifications", Weight: 1, Run: c08BlockwiseRun}},
		Quick:     200000,
		Thorough:  3000000,
		Require:   []string{"notification.tokenDiffersOnlyInLength", "observe.tokenInUseRefused", "bwnotify.followUpBlockServed", "bwnotify.representationChangedDuringTransfer", "bwnotify.delivered", "ctx.registrationAbandoned", "notification.stale", "notification.exactly128s", "notification.afterCancelOrFailure", "notification.whileCancelInProgress"},
		Assume: []string{
			"freshness exactly as RFC 7641 3.4; an inter-arrival time of exactly 128 s is not fresh by that text",
			"the answer to the registration itself is passed to the callback by the implementation whether or not registration then succeeds; the property only forbids notifications arriving later",
			"no notifications are generated after a 2.05 answer without an Observe option (the property is silent on that case)",
		},
	})
}

type c08Note struct {
	seq uint32
	id  int
}

type c08Obs struct {
	idx           int
	call          *Call
	obs           client.Observation
	token         []byte
	regCode       byte
	dupTried      bool // a second registration with this observation's token was attempted
	regObs        bool // registration answer carried an Observe option
	regSeen       bool // the peer saw the registration
	regSeenTick   int
	plainTried    bool
	answeredLate  bool
	regAnswered   bool
	registered    bool // Observe() returned without error
	failed        bool
	cancelCall    *Call
	cancelled     bool // Cancel has returned
	cancelStarted bool
	lastV         uint32
	lastT         time.Duration
	hasLast       bool
	got           []c08Note // callback log
	want          []c08Note // model
	nextSeq       uint32
	sent          int
	mid           uint16
	quota         int
	window        bool // a notification was handed over while Cancel was in progress: either outcome is legal
}

func c08Run(e *Env) {
	t := e.Tape
	tr := PickTransport(t)
	bw := t.Chance(1, 3)
	nObs := 1 + t.Choose(3)
	shortTokens := t.Chance(1, 3)
	// request slots: switched off, or the defaults of the configuration (one request at a time, NSTART 1)
	slots, nstart := int64(0), uint32(16)
	if t.Chance(1, 3) {
		slots, nstart = 1, 1
	}
	// the connection's message pool recycles objects in two runs out of three, and in half of those the callback takes
	// the notification over (Hijack) and gives it back to the pool before it returns - as an application is allowed to
	if pc := []uint32{0, 1, 1024}[t.Choose(3)]; e.PoolCapacity == 0 && pc > 0 {
		e.PoolCapacity = pc
	}
	takesOver := e.PoolCapacity > 0 && !e.Pool.Enabled && t.Chance(1, 2)
	var w *CWorld
	maxRetx, ticksTotal := 0, 0
	if IsDatagram(tr) {
		cfg := SimUDPConfig(int32(t.Choose(65536)))
		cfg.TransmissionNStart = nstart
		cfg.LimitClientParallelRequests, cfg.LimitClientEndpointParallelRequests = slots, slots
		maxRetx = int(cfg.TransmissionMaxRetransmit)
		cfg.BlockwiseEnable = bw
		w = NewCWorld(e, CWorldCfg{Transport: tr, UDP: cfg})
	} else {
		w = NewCWorld(e, CWorldCfg{Transport: tr, TCPOpts: []tcp.Option{
			options.WithBlockwise(bw, blockwise.SZX1024, 3*time.Second),
			options.WithLimitClientParallelRequest(slots), options.WithLimitClientEndpointParallelRequest(slots), options.WithCloseSocket(),
		}})
	}
	if w == nil {
		return
	}
	w.DupW = t.Choose(3)
	w.DropW = 0
	e.Wait()
	w.Pump()
	e.Logf("cfg transport=%s bw=%v observations=%d dup=%d", tr, bw, nObs, w.DupW)

	obs := make([]*c08Obs, 0, nObs)
	noteID := 0
	itemObs := map[*OutItem]*c08Obs{}
	itemNote := map[*OutItem]c08Note{}
	itemIsReg := map[*OutItem]bool{}
	itemFirst := map[*OutItem]time.Duration{}

	fresh := func(o *c08Obs, v uint32, now time.Duration) bool {
		if !o.hasLast {
			return true
		}
		v1, v2 := o.lastV, v
		if v1 < v2 && v2-v1 < 1<<23 {
			return true
		}
		if v1 > v2 && v1-v2 > 1<<23 {
			return true
		}
		return now > o.lastT+observeFreshness
	}

	w.OnRecv = func(m *WMsg) {
		if IsDatagram(tr) && (m.Type == TACK || m.Type == TRST) {
			return
		}
		if m.Code != 1 {
			return
		}
		n := ParseNonce(m)
		if n < 0 {
			// the deregistration request carries no query: identify the observation by its token
			for _, x := range obs {
				if x.token != nil && bytes.Equal(x.token, m.Token) {
					n = x.idx
				}
			}
		}
		if n < 0 || n >= len(obs) {
			return
		}
		o := obs[n]
		ov, hasObs := m.OptUint(OptObserve)
		ack := func(code byte, opts []WOpt, pl []byte) *OutItem {
			if IsDatagram(tr) && m.Type == TCON {
				return w.Queue(&WMsg{Type: TACK, Code: code, MID: m.MID, Token: m.Token, Opts: opts, Payload: pl}, fmt.Sprintf("answer(obs%d)", n))
			}
			return w.Queue(&WMsg{Type: TNON, Code: code, MID: w.NextPeerMID(), Token: m.Token, Opts: opts, Payload: pl}, fmt.Sprintf("answer(obs%d)", n))
		}
		if hasObs && ov == 0 && !o.regSeen {
			o.regSeen = true
			o.regSeenTick = ticksTotal
			o.token = m.Token
			o.mid = m.MID
			// registration answer
			o.regCode = []byte{0x45, 0x45, 0x43, 0x84, 0xa0, 0x45}[t.Weighted(5, 3, 2, 1, 1, 1)]
			o.regObs = true
			kind := t.Choose(6)
			if o.regCode == 0x45 && kind == 5 {
				o.regObs = false // "not supported"
			}
			var opts []WOpt
			noteID++
			note := c08Note{seq: 0, id: noteID}
			if o.regObs && o.regCode < 0x80 {
				note.seq = o.nextSeq
				opts = append(opts, UintOpt(OptObserve, o.nextSeq))
				o.nextSeq++
			}
			it := ack(o.regCode, opts, []byte(fmt.Sprintf("note-%d", note.id)))
			it.NoDup = true
			itemObs[it], itemNote[it], itemIsReg[it] = o, note, true
			e.Logf("peer: registration of obs%d token=%x -> code %d.%02d observe-option=%v", n, m.Token, o.regCode>>5, o.regCode&31, o.regObs && o.regCode < 0x80)
			return
		}
		if hasObs && ov == 1 {
			// deregistration
			it := ack(0x45, nil, []byte("cancelled"))
			it.NoDup = true
			return
		}
		if o.regSeen && IsDatagram(tr) && m.Type == TCON && m.MID == o.mid {
			return // retransmitted registration
		}
	}
	w.OnEmit = func(it *OutItem, dup bool) {
		o := itemObs[it]
		if o == nil {
			return
		}
		note := itemNote[it]
		now := e.Now()
		if first, seen := itemFirst[it]; seen && IsDatagram(tr) && it.M.Type == TCON {
			// a network duplicate of a confirmable notification carries the same message ID: within the
			// exchange lifetime it is answered from the de-duplication layer and never reaches the observation
			switch {
			case now-first < exchangeLifetime:
				e.Probe("notification.conDuplicateSwallowedByMID")
				e.NonTrivial()
				return
			case now-first == exchangeLifetime:
				o.window = true
				return
			}
		}
		if _, seen := itemFirst[it]; seen {
			e.NonTrivial()
		}
		itemFirst[it] = now // time at which a copy of this message was last processed (not swallowed)
		if itemIsReg[it] {
			// the answer to the registration is handed to the callback whatever its code
			if !o.regAnswered {
				o.regAnswered = true
				// an answer that arrives after the attempts of a confirmable registration were exhausted (at least
				// MAX_RETRANSMIT+1 housekeeping ticks since it went out) obliges to nothing (C06)
				o.answeredLate = IsDatagram(tr) && ticksTotal-o.regSeenTick > maxRetx
				if o.call != nil && !o.call.Done() {
					o.want = append(o.want, note)
					if o.regObs && o.regCode < 0x80 {
						o.lastV, o.lastT, o.hasLast = note.seq, now, true
					} else {
						// no Observe option: delivered, freshness state untouched
					}
				}
			}
			return
		}
		if o.regAnswered && o.call != nil && !o.call.Done() {
			// the registration answer was delivered but Observe has not returned yet (e.g. it still waits
			// for an acknowledgement): the property speaks about registered, failed and cancelled observations only
			o.window = true
			e.Probe("notification.whileRegistrationPending")
			return
		}
		if o.cancelStarted && !o.cancelled {
			// Cancel is in progress: the property only speaks about notifications after it has returned
			o.window = true
			e.Probe("notification.whileCancelInProgress")
			return
		}
		live := o.registered && !o.cancelStarted && !o.failed && o.regObs
		if !live {
			if o.cancelled || o.failed {
				e.Probe("notification.afterCancelOrFailure")
			}
			return // must not reach the callback
		}
		if fresh(o, note.seq, now) {
			if o.hasLast && now > o.lastT+observeFreshness && !(o.lastV < note.seq && note.seq-o.lastV < 1<<23) && !(o.lastV > note.seq && o.lastV-note.seq > 1<<23) {
				e.Probe("fresh.byTimeOnly")
			}
			o.want = append(o.want, note)
			o.lastV, o.lastT, o.hasLast = note.seq, now, true
		} else {
			e.NonTrivial()
			e.Probe("notification.stale")
			if now == o.lastT+observeFreshness {
				e.Probe("notification.exactly128s")
			}
		}
	}

	compare := func(when string) {
		for _, o := range obs {
			e.mu.Lock()
			got := append([]c08Note(nil), o.got...)
			e.mu.Unlock()
			if o.window {
				o.window = false
				if len(got) > len(o.want) {
					last := got[len(got)-1]
					o.lastV, o.lastT, o.hasLast = last.seq, e.Now(), true
				}
				o.want = append([]c08Note(nil), got...)
				continue
			}
			if len(got) != len(o.want) {
				if len(got) > len(o.want) {
					x := got[len(o.want)]
					sig := "stale-or-foreign-notification-delivered"
					if o.cancelled {
						sig = "notification-after-cancel-returned"
					} else if o.failed {
						sig = "notification-after-failed-registration"
					}
					rule := "C08.R1"
					if o.cancelled || o.failed {
						rule = "C08.R4"
					}
					e.Violate(rule, sig, "%s: obs%d: callback got notification id=%d seq=%d that the freshness model rejects (last accepted seq=%d at %v, now %v)", when, o.idx, x.id, x.seq, o.lastV, o.lastT, e.Now())
				} else {
					x := o.want[len(got)]
					e.Violate("C08.R1", "fresh-notification-not-delivered", "%s: obs%d: notification id=%d seq=%d is fresh by RFC 7641 3.4 but did not reach the callback", when, o.idx, x.id, x.seq)
				}
				// resynchronise so that one defect is reported once
				o.want = append([]c08Note(nil), got...)
				continue
			}
			for i := range got {
				if got[i] != o.want[i] {
					e.Violate("C08.R1", "callback-sequence-differs", "%s: obs%d: callback #%d got id=%d seq=%d, model expects id=%d seq=%d", when, o.idx, i, got[i].id, got[i].seq, o.want[i].id, o.want[i].seq)
					o.want = append([]c08Note(nil), got...)
					break
				}
			}
		}
	}

	idle := 0
	seqBase := []uint32{0, 1<<23 - 3, 1<<24 - 3, 1 << 22, 5}[t.Choose(5)]
	for e.Budget() {
		// results of registrations / cancellations
		for _, o := range obs {
			if o.call != nil && o.call.Done() && !o.registered && !o.failed {
				_, err := o.call.Result()
				ok := o.regCode == 0x45 || o.regCode == 0x43
				if err == nil {
					o.registered = true
					if o.regAnswered && !ok {
						e.Violate("C08.R3", "registration-succeeded-on-error-code", "obs%d: Observe returned success although the registration was answered with %d.%02d", o.idx, o.regCode>>5, o.regCode&31)
					}
				} else {
					o.failed = true
					if o.regAnswered && ok && !o.call.Cancelled && !o.answeredLate {
						e.Violate("C08.R3", "registration-failed-on-success-code", "obs%d: Observe failed (%s) although the registration was answered with %d.%02d", o.idx, trimErr(err), o.regCode>>5, o.regCode&31)
					}
				}
			}
			if o.cancelCall != nil && o.cancelCall.Done() && !o.cancelled {
				o.cancelled = true
			}
		}
		evs := w.Events(5)
		if len(obs) < nObs {
			evs = append(evs, Event{Label: "observe", W: 4, Do: func() {
				o := &c08Obs{idx: len(obs), nextSeq: seqBase + uint32(len(obs))*7, quota: 3 + t.Choose(10)}
				o.nextSeq &= 1<<24 - 1
				obs = append(obs, o)
				o.call = e.NewCall(fmt.Sprintf("observe%d", o.idx), o.idx, nil, 3000*time.Second)
				e.Logf("application registers obs%d", o.idx)
				go func() {
					observe := func(cb func(n *pool.Message)) (client.Observation, error) {
						if !shortTokens {
							return w.API.Observe(o.call.Ctx, fmt.Sprintf("/o%d", o.idx), cb, QueryOpt(o.idx))
						}
						// caller-chosen tokens that differ only in length: 50, 00 50, 00 00 50
						req := w.API.AcquireMessage(o.call.Ctx)
						defer w.API.ReleaseMessage(req)
						tok := append(make([]byte, o.idx), 0x50)
						if err := req.SetupGet(fmt.Sprintf("/o%d", o.idx), message.Token(tok), QueryOpt(o.idx)); err != nil {
							return nil, err
						}
						req.SetObserve(0)
						return w.API.DoObserve(req, cb)
					}
					ob, err := observe(func(n *pool.Message) {
						ri := Snapshot(n)
						if e.Pool.Enabled {
							e.Pool.Hold(n, "notification inside its callback")
							e.Pool.CheckHandover(ri, "notification handed to a callback")
							defer func() {
								e.Pool.CheckHeld(n, ri)
								e.Pool.Unhold(n)
							}()
						}
						var id int
						_, _ = fmt.Sscanf(string(ri.Payload), "note-%d", &id)
						var seq uint32
						if v, ok := ri.Opt(OptObserve); ok {
							for _, b := range v {
								seq = seq<<8 | uint32(b)
							}
						}
						e.mu.Lock()
						o.got = append(o.got, c08Note{seq: seq, id: id})
						tok := o.token
						e.mu.Unlock()
						if tok != nil && !bytes.Equal(ri.Token, tok) {
							e.Violate("C08.R2", "foreign-token-in-callback", "obs%d (token %x): callback invoked with token %x", o.idx, tok, ri.Token)
						}
						e.Notef("callback obs%d id=%d seq=%d", o.idx, id, seq)
						if takesOver {
							e.Probe("callback.tookNotificationOverAndReleasedIt")
							n.Hijack()
							w.API.ReleaseMessage(n)
						}
					})
					o.call.mu.Lock()
					o.obs = ob
					o.call.done, o.call.err, o.call.donePhase = true, err, e.Phase()
					o.call.mu.Unlock()
					if err != nil {
						e.Notef("observe%d failed: %s", o.idx, trimErr(err))
					} else {
						e.Notef("observe%d registered", o.idx)
					}
				}()
			}})
		}
		for _, o := range obs {
			o := o
			// the notifier emits the next notification (also for cancelled / failed / unknown registrations)
			if o.regAnswered && o.regObs && o.sent < o.quota {
				evs = append(evs, Event{Label: "notify", W: 3, Do: func() {
					o.sent++
					noteID++
					// sequence numbers: mostly +1, sometimes a jump across 2^23 or a step back
					switch t.Weighted(6, 1, 1, 1) {
					case 1:
						o.nextSeq += 1 << 23
					case 2:
						o.nextSeq += 1<<23 - 1
					case 3:
						o.nextSeq -= 3
					}
					o.nextSeq &= 1<<24 - 1
					note := c08Note{seq: o.nextSeq, id: noteID}
					o.nextSeq = (o.nextSeq + 1) & (1<<24 - 1)
					typ := TNON
					if IsDatagram(tr) && t.Chance(1, 3) {
						typ = TCON
					}
					it := w.Queue(&WMsg{Type: typ, Code: 0x45, MID: w.NextPeerMID(), Token: o.token, Opts: []WOpt{UintOpt(OptObserve, note.seq)}, Payload: []byte(fmt.Sprintf("note-%d", note.id))}, fmt.Sprintf("notification(obs%d id=%d seq=%d)", o.idx, note.id, note.seq))
					itemObs[it], itemNote[it] = o, note
					e.Logf("notifier produces obs%d id=%d seq=%d", o.idx, note.id, note.seq)
				}})
			}
			if o.call != nil && !o.call.Done() && !o.call.Cancelled && o.regSeen && !o.regAnswered {
				// the application gives up on a registration whose answer is still on its way: the registration has
				// failed, and neither the late answer nor the notifications that follow may reach the callback
				evs = append(evs, Event{Label: "abandon-registration", W: 1, Do: func() {
					e.Fault("ctx.registrationAbandoned")
					e.Logf("application cancels the context of the pending registration of obs%d", o.idx)
					e.CancelCall(o.call)
				}})
			}
			if slots == 0 && o.registered && !o.cancelStarted && !o.dupTried && o.token != nil && o.regObs && (o.regCode == 0x45 || o.regCode == 0x43) {
				// an application error that must stay harmless: a second registration with the token of a live
				// observation. It is refused, and the observation that owns the token goes on as before. (Not with
				// request slots: a registration that first waits for its turn may find the token free by then.)
				evs = append(evs, Event{Label: "register-with-token-in-use", W: 1, Do: func() {
					o.dupTried = true
					e.Fault("observe.tokenInUse")
					e.Logf("application registers another observation with the token of obs%d", o.idx)
					ctx, cancel := context.WithTimeout(context.Background(), 3*time.Second)
					e.OnCleanup(cancel)
					go func() {
						req := w.API.AcquireMessage(ctx)
						defer w.API.ReleaseMessage(req)
						_ = req.SetupGet(fmt.Sprintf("/o%d", o.idx), message.Token(o.token), QueryOpt(90+o.idx))
						req.SetObserve(0)
						_, err := w.API.DoObserve(req, func(n *pool.Message) {
							e.Violate("C08.R2", "notification-to-refused-registration", "the callback of a registration that was refused (token in use) was invoked")
						})
						if err != nil {
							e.Probe("observe.tokenInUseRefused")
						}
						e.Notef("registration with the token of obs%d returned err=%v", o.idx, err != nil)
					}()
				}})
			}
			if slots == 0 && o.registered && !o.cancelStarted && !o.plainTried && o.token != nil && o.regObs && (o.regCode == 0x45 || o.regCode == 0x43) {
				// another application error that must stay harmless: an ordinary request with the token of a live
				// observation. The token is in use: the request is refused, the observation goes on as before.
				evs = append(evs, Event{Label: "request-with-token-of-observation", W: 1, Do: func() {
					o.plainTried = true
					e.Fault("request.tokenOfLiveObservation")
					e.Probe("request.tokenOfLiveObservation")
					e.Logf("application issues an ordinary request with the token of obs%d", o.idx)
					ctx, cancel := context.WithTimeout(context.Background(), 3*time.Second)
					e.OnCleanup(cancel)
					go func() {
						req := w.API.AcquireMessage(ctx)
						defer w.API.ReleaseMessage(req)
						_ = req.SetupGet("/plain", message.Token(o.token), QueryOpt(80+o.idx))
						resp, err := w.API.Do(req)
						if err == nil {
							ri := Snapshot(resp)
							w.API.ReleaseMessage(resp)
							e.Violate("C08.R2", "request-accepted-with-token-of-live-observation", "an ordinary request with the token of obs%d (a live observation) was accepted and returned %s: what arrives under that token now has two takers", o.idx, ri)
						}
						e.Notef("request with the token of obs%d returned err=%v", o.idx, err != nil)
					}()
				}})
			}
			if o.registered && !o.cancelStarted {
				evs = append(evs, Event{Label: "cancel", W: 1, Do: func() {
					o.cancelStarted = true
					o.cancelCall = e.NewCall(fmt.Sprintf("cancelobs%d", o.idx), 50+o.idx, nil, 3000*time.Second)
					e.Logf("application cancels obs%d", o.idx)
					e.Fault("observe.cancel")
					ob := o.obs
					go func() {
						err := ob.Cancel(o.cancelCall.Ctx)
						o.cancelCall.mu.Lock()
						o.cancelCall.done, o.cancelCall.err, o.cancelCall.donePhase = true, err, e.Phase()
						o.cancelCall.mu.Unlock()
						e.Notef("cancel obs%d returned err=%v", o.idx, err != nil)
					}()
				}})
			}
		}
		// a request of the peer that carries the token bytes of a live observation (tokens are scoped per direction): it
		// is a request for the application's handler, not a notification
		if t.Chance(1, 12) {
			for _, o := range obs {
				if o.registered && !o.cancelStarted && o.token != nil && o.regObs {
					w.Queue(&WMsg{Type: TNON, Code: 1, MID: w.NextPeerMID(), Token: o.token, Opts: []WOpt{{Num: OptURIPath, Val: []byte("peer-asks")}}, Payload: []byte("peer-request")}, "request of the peer with the token of an observation")
					e.Fault("msg.peerRequestWithObservationToken")
					e.Probe("peer.requestCarriesObservationToken")
					break
				}
			}
		}
		// a notification for a token that was never registered (unrelated, or one zero byte longer than a registered one)
		if t.Chance(1, 10) {
			noteID++
			strayTok := []byte{0x7d, byte(noteID)}
			if shortTokens && t.Chance(1, 2) {
				strayTok = append(make([]byte, nObs), 0x50)
				e.Probe("notification.tokenDiffersOnlyInLength")
			} else if shortTokens && len(obs) > 0 {
				// the one 8-byte token that has the same CRC-64 as a registered short token
				if ct := collidingToken(append(make([]byte, t.Choose(len(obs))), 0x50)); ct != nil {
					strayTok = ct
					e.Probe("notification.tokenWithTheSameChecksum")
				}
			}
			w.Queue(&WMsg{Type: TNON, Code: 0x45, MID: w.NextPeerMID(), Token: strayTok, Opts: []WOpt{UintOpt(OptObserve, 9)}, Payload: []byte(fmt.Sprintf("note-%d", noteID))}, "notification(unknown token)")
			e.Fault("msg.forged")
		}
		evs = append(evs, Event{Label: "advance", W: 2, Do: func() {
			dt := []time.Duration{time.Second, time.Millisecond, observeFreshness - time.Millisecond, observeFreshness, observeFreshness + time.Millisecond, 130 * time.Second, observeFreshness + time.Nanosecond}[t.Choose(7)]
			// aim exactly at the window of one observation
			if len(obs) > 0 && t.Chance(1, 2) {
				o := obs[t.Choose(len(obs))]
				if o.hasLast {
					left := o.lastT + observeFreshness - e.Now()
					if d := left + []time.Duration{-time.Millisecond, 0, time.Nanosecond, time.Millisecond}[t.Choose(4)]; d > 0 {
						dt = d
					}
				}
			}
			e.Logf("advance %v", dt)
			e.Fault("time.advance")
			e.Sleep(dt)
			if t.Chance(1, 3) {
				e.Logf("tick")
				ticksTotal++
				e.Fault("tick")
				w.Tick(time.Now())
			}
		}})
		sentAll := len(obs) >= nObs
		for _, o := range obs {
			if !o.regAnswered || (o.sent < o.quota && o.regObs) {
				sentAll = false
			}
		}
		w.prune()
		if sentAll && len(w.Outbox) == 0 {
			idle++
			if idle > 3 {
				break
			}
		}
		w.Step(evs)
		compare("after step")
	}
	// drain
	for i := 0; i < 4; i++ {
		w.prune()
		for _, it := range append([]*OutItem(nil), w.Outbox...) {
			e.Logf("drain: peer->ep %s", it.Label)
			w.Emit(it, false)
			e.Wait()
			w.Pump()
			compare("drain")
		}
	}
	for _, o := range obs {
		if o.call != nil && !o.call.Done() {
			e.CancelCall(o.call)
		}
		if o.cancelCall != nil && !o.cancelCall.Done() {
			e.CancelCall(o.cancelCall)
		}
	}
	e.Wait()
	w.Pump()
	// R5: the observation table holds live observations only
	live := 0
	for _, o := range obs {
		if o.call != nil && o.call.Done() {
			_, err := o.call.Result()
			if err == nil && o.regObs && !o.cancelStarted {
				live++
			}
		}
	}
	if w.API.Context().Err() == nil {
		if n := w.TableSizes()["observations"]; n != live {
			e.Violate("C08.R5", "observation-table-not-live-only", "observation table holds %d entries, %d observations are live", n, live)
		}
	}
}
