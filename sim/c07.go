package sim

import (
	"bytes"
	"fmt"
	"github.com/plgd-dev/go-coap/v3/message"
	"github.com/plgd-dev/go-coap/v3/message/codes"
	"sync"
	"time"

	"github.com/plgd-dev/go-coap/v3/message/pool"
	"github.com/plgd-dev/go-coap/v3/mux"
	"github.com/plgd-dev/go-coap/v3/options"
	"github.com/plgd-dev/go-coap/v3/tcp"
	tcpClient "github.com/plgd-dev/go-coap/v3/tcp/client"
	tcpServer "github.com/plgd-dev/go-coap/v3/tcp/server"
)

// C07 — stream framing is independent of how bytes are segmented.

func init() {
	Register(&PropDef{
		ID:    "C07",
		Title: "Stream framing is independent of how bytes are segmented",
		Rule: "a scripted sender writes the concatenated encoding of up to 12 generated messages (all length-nibble classes, token lengths 0-8, ordinary and signalling codes, optionally one frame whose declared length exceeds the maximum incl. 32-bit extended-length boundary values); " +
			"the tape cuts the stream into reads (single bytes, cuts inside headers, several frames per read) and picks the read-buffer size; in S-STREAM/library-sender two real connections exchange 1-4 requests and responses whose frame sizes sit around the length-encoding boundaries (13, 269, 65805), the simulator decodes the wire with its own codec and cuts it into reads; non-trivial = at least one cut fell inside a frame header or one read carried more than one frame; distinct = distinct event-log hash",
		Scenarios: []Scenario{
			{Name: "S-STREAM/plain", Weight: 3, Run: func(e *Env) { c07Run(e, false) }},
			{Name: "S-STREAM/tls-shim", Weight: 1, Run: func(e *Env) { c07Run(e, true) }},
			{Name: "S-STREAM/library-sender", Weight: 2, Run: c07SenderRun},
			{Name: "S-STREAM/csm-exchange", Weight: 1, Run: c07CSMExchangeRun},
		},
		Quick:    150000,
		Thorough: 8000000,
		Require:  []string{"pool.recyclingOn", "monitor.dropsMessage", "handler.busyWhileQueueFull", "cut.insideHeader", "read.severalFrames", "read.singleByte", "oversize.headerSupplied", "read.lastBytesTogetherWithEOF", "frame.bodyLen=13+0", "frame.bodyLen=269+0", "frame.bodyLen=65805+0", "csm.callbacksOverlap"},
		Assume: []string{
			"'header' of a frame = length nibble, extended length, code and token; the connection must be closed at the quiescent point after the last header byte of an oversize frame was supplied (the body is withheld by the simulator)",
			"generated frames are either clearly within the maximum (total frame length <= max) or clearly above it (declared options+payload length > max), so the oracle does not depend on which of the two the implementation compares",
		},
	})
}

type c07Frame struct {
	msg      *WMsg
	raw      []byte
	hdrLen   int
	signal   bool
	filtered bool // the application's request monitor drops this message
	oversize bool
	declared uint64
	start    int // offset in the stream
}

func c07Run(e *Env, tlsShim bool) {
	t := e.Tape
	maxSize := []uint32{65536, 1152, 300, 70000, 4096}[t.Choose(5)]
	cacheSize := []uint16{2048, 1, 2, 7, 64, 4096, 0}[t.Choose(7)] // 0: the option accepts it
	nMsg := 1 + t.Choose(12)
	// the connection's message pool recycles objects in two runs out of three (a frame without a payload decoded
	// into an object that carried one before must not inherit it)
	if pc := []uint32{0, 1, 1024}[t.Choose(3)]; e.PoolCapacity == 0 && pc > 0 {
		e.PoolCapacity = pc
		e.Probe("pool.recyclingOn")
	}
	withOversize := t.Chance(1, 3)
	// an application-supplied request monitor (WithRequestMonitor) filters some messages out: they are not
	// delivered, everything around them is
	monitorOn := t.Chance(1, 3) && !tlsShim
	oversizeAt := t.Choose(nMsg)

	// ---- generate the message sequence
	var frames []*c07Frame
	var stream []byte
	budget := 70 * 1024
	for i := 0; i < nMsg; i++ {
		f := &c07Frame{start: len(stream)}
		tkl := t.Choose(9)
		tok := make([]byte, tkl)
		for j := range tok {
			tok[j] = byte(0x20 + i*8 + j)
		}
		if withOversize && i == oversizeAt {
			// a frame whose declared length exceeds the maximum; only the header is ever supplied
			var decl uint64
			switch t.Choose(6) {
			case 0:
				decl = uint64(maxSize) + 1
			case 1:
				decl = uint64(maxSize) + 70000
			case 2:
				decl = 0xFFFFFFFF + 65805 // largest encodable
			case 3:
				decl = 1<<32 - 65805 + 65805 // extended length 2^32-65805: total wraps in 32-bit arithmetic
			case 4:
				decl = 1<<32 - 65805 + 65805 + 1
			default:
				decl = 1<<32 + 65805 - 14 // ext = 2^32-14: header+len wraps to a tiny number
			}
			if decl <= uint64(maxSize) {
				decl = uint64(maxSize) + 1
			}
			f.oversize, f.declared = true, decl
			f.msg = &WMsg{Code: 0x02, Token: tok}
			f.raw = tcpHeader64(decl, tkl, 0x02, tok)
			f.hdrLen = len(f.raw)
			// a few body bytes that must never be needed
			f.raw = append(f.raw, bytes.Repeat([]byte{0xb1}, 5)...)
			frames = append(frames, f)
			stream = append(stream, f.raw...)
			continue
		}
		kind := t.Weighted(6, 2, 1, 1, 1, 1) // ordinary, response, ping, pong, csm, release/abort
		m := &WMsg{Token: tok}
		switch kind {
		case 0:
			m.Code = byte(1 + t.Choose(4))
			m.Opts = append(m.Opts, WOpt{Num: OptURIPath, Val: []byte(fmt.Sprintf("p%d", i))}, WOpt{Num: OptURIQuery, Val: []byte(fmt.Sprintf("n=%d", i))})
		case 1:
			m.Code = []byte{0x45, 0x44, 0x84, 0xa0}[t.Choose(4)]
			m.Opts = append(m.Opts, WOpt{Num: OptContentFormat, Val: nil}, WOpt{Num: OptMaxAge, Val: []byte{byte(i + 1)}})
		case 2:
			m.Code, f.signal = 0xe2, true // 7.02 Ping
		case 3:
			m.Code, f.signal = 0xe3, true // 7.03 Pong
		case 4:
			m.Code, f.signal = 0xe1, true // 7.01 CSM
			if t.Chance(1, 2) {
				m.Opts = append(m.Opts, WOpt{Num: OptTCPBlockWise, Val: nil})
			}
			m.Opts = append(m.Opts, UintOpt(OptTCPMaxMsgSize, 1152+uint32(i)))
		default:
			m.Code, f.signal = []byte{0xe4, 0xe5}[t.Choose(2)], true // Release / Abort
		}
		if !f.signal && monitorOn && t.Chance(1, 4) {
			f.filtered = true
			e.Fault("monitor.dropsMessage")
		}
		if !f.signal {
			// body length class -> length nibble class of the frame
			var pl int
			switch t.Weighted(4, 3, 3, 2, 1) {
			case 0:
				pl = t.Choose(6)
			case 1:
				pl = 6 + t.Choose(250)
			case 2:
				pl = []int{256, 257, 268, 269, 300, 1000}[t.Choose(6)]
			case 3:
				pl = 2000 + t.Choose(3000)
			default:
				pl = []int{65780, 65790, 65800, 65805, 66000}[t.Choose(5)]
			}
			if pl > budget-200 {
				pl = t.Choose(64)
			}
			m.Payload = Body(1000+i, pl)
		}
		f.msg = m
		f.raw = EncodeTCP(m)
		if uint64(len(f.raw)) > uint64(maxSize) {
			// would sit in the grey zone or above the maximum: shrink the payload so that the whole frame clearly fits
			room := int(maxSize) - 40
			if room < 0 {
				room = 0
			}
			if len(m.Payload) > room {
				m.Payload = m.Payload[:room]
			}
			f.raw = EncodeTCP(m)
			for uint64(len(f.raw)) > uint64(maxSize) && len(m.Payload) > 0 {
				m.Payload = m.Payload[:len(m.Payload)/2]
				f.raw = EncodeTCP(m)
			}
		}
		_, n, _ := DecodeTCP(f.raw)
		if n != len(f.raw) {
			e.Violate("HARNESS", "bad-frame", "harness generated an undecodable frame")
			return
		}
		f.hdrLen = len(f.raw) - len(encodeOptsPayload(nil, m.Opts, m.Payload))
		budget -= len(f.raw)
		frames = append(frames, f)
		stream = append(stream, f.raw...)
	}

	// ---- system under test
	type got struct {
		code    byte
		token   []byte
		opts    []WOpt
		payload []byte
	}
	var handled []got
	a, _ := NewStream(e, TCPAddr("10.0.0.1", 40000), TCPAddr("10.0.0.2", 5683))
	router := mux.NewRouter()
	// busy: the handler of the first message is stuck in application code and the receive queue is tiny, so the
	// rest of the stream piles up behind it; order and completeness are judged after the handler was let go
	busy := !withOversize && t.Chance(1, 3)
	qsize := 1 + t.Choose(2)
	gate := make(chan struct{})
	var gateOnce sync.Once
	openGate := func() { gateOnce.Do(func() { close(gate) }) }
	e.OnCleanup(openGate)
	// some applications build their answer as a plain message.Message value and put it into the response with
	// pool.Message.SetMessage (public API): the pooled object that carried it is used for a later incoming frame
	rawAnswers := t.Chance(1, 4)
	router.DefaultHandle(mux.HandlerFunc(func(rw mux.ResponseWriter, r *mux.Message) {
		ri := Snapshot(r.Message)
		e.mu.Lock()
		handled = append(handled, got{ri.Code, ri.Token, ri.Opts, ri.Payload})
		first := len(handled) == 1
		e.mu.Unlock()
		e.Notef("handler got %d.%02d tok=%x pl=%d", ri.Code>>5, ri.Code&31, ri.Token, len(ri.Payload))
		if busy && first {
			<-gate
		}
		if rawAnswers && ri.Code >= 1 && ri.Code <= 4 {
			e.Probe("handler.answersWithPlainMessageValue")
			rw.Message().SetMessage(message.Message{Code: codes.Content, Token: r.Token(), Payload: []byte("raw")})
		}
	}))
	topts := []tcp.Option{
		options.WithMaxMessageSize(maxSize),
		options.WithConnectionCacheSize(cacheSize),
		options.WithMux(router),
		options.WithCloseSocket(),
	}
	if busy {
		topts = append(topts, options.WithReceivedMessageQueueSize(qsize))
	}
	var closedFn func() bool
	var errsFn func() []string
	if monitorOn {
		// the request monitor is a server option: the receiving endpoint is a connection accepted by a real tcp server
		seen := 0
		monitor := func(_ *tcpClient.Conn, _ *pool.Message) (bool, error) {
			// called once per decoded message, in stream order (oversize frames never get here)
			var f *c07Frame
			k := seen
			seen++
			for _, x := range frames {
				if x.oversize {
					break
				}
				if k == 0 {
					f = x
					break
				}
				k--
			}
			return f != nil && f.filtered, nil
		}
		e.Real("tcp/server.Server (accept, per-connection options incl. the request monitor)")
		var srvConn *tcpClient.Conn
		var errs []string
		lis := newSimListener()
		sopts := []tcpServer.Option{
			options.WithMux(router), options.WithMaxMessageSize(maxSize), options.WithConnectionCacheSize(cacheSize),
			options.WithRequestMonitor(monitor),
			c10UDPSeam{tick: func(func(now time.Time) bool) {}, poolCap: e.PoolCapacity},
			options.WithErrors(func(err error) { e.mu.Lock(); errs = append(errs, err.Error()); e.mu.Unlock() }),
			options.WithOnNewConn(func(cc *tcpClient.Conn) { e.mu.Lock(); srvConn = cc; e.mu.Unlock() }),
			options.WithInactivityMonitor(100000*time.Second, func(cc *tcpClient.Conn) { _ = cc.Close() }),
		}
		if busy {
			sopts = append(sopts, options.WithReceivedMessageQueueSize(qsize))
		}
		srv := tcpServer.New(sopts...)
		go func() { _ = srv.Serve(lis) }()
		e.OnCleanup(func() { srv.Stop(); _ = a.Close() })
		lis.Connect(a)
		e.Wait()
		e.mu.Lock()
		cc := srvConn
		e.mu.Unlock()
		if cc == nil {
			e.Violate("HARNESS", "server-setup", "the tcp server did not create a connection for the accepted stream")
			return
		}
		closedFn = func() bool { return cc.Context().Err() != nil }
		errsFn = func() []string { e.mu.Lock(); defer e.mu.Unlock(); return append([]string(nil), errs...) }
	} else {
		ep, err := NewTCPEndpoint(e, a, TCPEndpointCfg{TLS: tlsShim, Opts: topts})
		if err != nil {
			e.Violate("HARNESS", "client-setup", "tcp.Client failed: %v", err)
			return
		}
		closedFn = func() bool { return ep.CC.Context().Err() != nil }
		errsFn = ep.Errors
	}
	e.Real("mux.Router (default handler)")
	e.Wait()
	e.Logf("cfg max=%d cache=%d msgs=%d oversize=%v@%d stream=%dB tls=%v busy-handler=%v queue=%d", maxSize, cacheSize, nMsg, withOversize, oversizeAt, len(stream), tlsShim, busy, qsize)
	for i, f := range frames {
		e.Logf("frame %d: code=%d.%02d tkl=%d len=%d hdr=%d signal=%v oversize=%v declared=%d", i, f.msg.Code>>5, f.msg.Code&31, len(f.msg.Token), len(f.raw), f.hdrLen, f.signal, f.oversize, f.declared)
	}

	a.InjectIn(stream)
	released := 0
	releasedBeforeLast := 0 // bytes supplied before the final release of the run
	// first oversize frame: everything from its header end on is withheld
	limit := len(stream)
	var over *c07Frame
	for _, f := range frames {
		if f.oversize {
			over = f
			limit = f.start + f.hdrLen
			break
		}
	}
	frameAt := func(off int) *c07Frame {
		for _, f := range frames {
			if off >= f.start && off < f.start+len(f.raw) {
				return f
			}
		}
		return nil
	}
	closed := closedFn
	finAtEnd := over == nil && !busy && !monitorOn && t.Chance(1, 4)
	finSent := false

	for released < limit && e.Budget() {
		f := frameAt(released)
		inFrame := released - f.start
		toHdrEnd := f.hdrLen - inFrame
		toFrameEnd := len(f.raw) - inFrame
		var n int
		switch t.Weighted(3, 3, 2, 2, 2, 2, 2) {
		case 0: // rest of this frame
			n = toFrameEnd
		case 1:
			n = 1
		case 2:
			n = 2 + t.Choose(4)
		case 3: // up to the end of the header (or just short of it)
			if toHdrEnd > 1 {
				n = toHdrEnd - t.Choose(2)
			} else {
				n = 1
			}
		case 4: // into the next frame(s)
			n = toFrameEnd + 1 + t.Choose(40)
		case 5:
			n = 1 + t.Choose(300)
		default:
			n = limit - released
		}
		if n < 1 {
			n = 1
		}
		if released+n > limit {
			n = limit - released
		}
		// probes
		if inFrame+n < f.hdrLen {
			e.NonTrivial()
			e.Probe("cut.insideHeader")
		}
		if n > toFrameEnd {
			e.NonTrivial()
			e.Probe("read.severalFrames")
		}
		if n == 1 {
			e.Probe("read.singleByte")
		}
		e.Fault("stream.segment")
		releasedBeforeLast = released
		if finAtEnd && released+n == limit {
			// the peer closes right behind its last message: the read that takes the last bytes reports the end of the
			// stream as well
			a.EOFWithData = true
			a.PeerFIN()
			finSent = true
			e.Fault("stream.finWithLastBytes")
			e.Probe("read.lastBytesTogetherWithEOF")
			e.Logf("the peer's FIN follows the last byte")
		}
		a.ReleaseIn(n)
		released += n
		e.Logf("release %d bytes (offset now %d/%d)", n, released, limit)
		e.Wait()
		if closed() && !(over != nil && released >= limit) {
			break
		}
	}
	e.Wait()
	if busy {
		e.mu.Lock()
		piled := len(handled)
		e.mu.Unlock()
		if nonSignal := func() (n int) {
			for _, f := range frames {
				if !f.signal && !f.filtered && f.start+len(f.raw) <= released {
					n++
				}
			}
			return
		}(); piled == 1 && nonSignal > 1+qsize+1 {
			e.NonTrivial()
			e.Probe("handler.busyWhileQueueFull")
		}
		e.Logf("the busy handler returns")
		openGate()
		e.Wait()
	}

	// ---- oracle
	var want []got
	for _, f := range frames {
		if f.oversize {
			break
		}
		if f.start+len(f.raw) > released {
			break // never fully supplied (run ended early)
		}
		if !f.signal && !f.filtered {
			want = append(want, got{f.msg.Code, f.msg.Token, f.msg.Opts, f.msg.Payload})
		}
	}
	e.mu.Lock()
	have := append([]got(nil), handled...)
	e.mu.Unlock()
	if over != nil && released >= limit {
		e.Probe("oversize.headerSupplied")
		if !closed() {
			e.Violate("C07.R4", fmt.Sprintf("oversize-not-closed:declared>2^32=%v", over.declared > 0xFFFFFFFF), "frame %d declares %d bytes (maximum %d); its complete header was supplied and the body withheld, but the connection is still open", indexOf(frames, over), over.declared, maxSize)
		}
	} else if closed() && over == nil && !finSent {
		e.Violate("C07.R1", "closed-on-valid-stream", "connection closed itself on a stream of valid frames within the maximum: %v", errsFn())
	}
	for i := range have {
		if i >= len(want) {
			sig := "extra-delivery"
			if over != nil {
				sig = fmt.Sprintf("delivered-at-or-after-oversize:declared>2^32=%v", over.declared > 0xFFFFFFFF)
				e.Violate("C07.R3", sig, "message #%d delivered (code %d.%02d, %d payload bytes) although only %d deliverable messages precede the oversize frame", i, have[i].code>>5, have[i].code&31, len(have[i].payload), len(want))
			} else {
				e.Violate("C07.R1", sig, "message #%d delivered (code %d.%02d) but only %d messages were sent", i, have[i].code>>5, have[i].code&31, len(want))
			}
			break
		}
		w := want[i]
		h := have[i]
		if h.code != w.code || !bytes.Equal(h.token, w.token) || !bytes.Equal(h.payload, w.payload) || !optsEqual(h.opts, w.opts) {
			e.Violate("C07.R1", "delivered-message-differs", "delivery #%d differs from sent message: got code=%d.%02d tok=%x pl=%d opts=%v, want code=%d.%02d tok=%x pl=%d opts=%v",
				i, h.code>>5, h.code&31, h.token, len(h.payload), h.opts, w.code>>5, w.code&31, w.token, len(w.payload), w.opts)
			break
		}
	}
	// Completeness: every completely supplied message that precedes the oversize frame must be delivered - also the
	// ones that arrived in the very same read as the offending header. (They are in the receive queue when the
	// connection is closed; unrepaired code let the runtime choose between them and the done signal.)
	mustHave := len(want)
	if over != nil && released >= limit {
		sameRead := false
		for _, f := range frames {
			if f.oversize {
				break
			}
			if f.start+len(f.raw) > releasedBeforeLast && !f.signal && !f.filtered {
				sameRead = true
			}
		}
		if sameRead {
			e.MarkRacy()
			e.Probe("oversize.sameReadAsEarlierMessages")
		}
	}
	if len(have) < mustHave && !(closed() && over == nil && !finSent) {
		e.Violate("C07.R1", "message-not-delivered", "%d messages delivered, %d complete deliverable messages were supplied ahead of anything that closes the connection", len(have), mustHave)
	}
	// R2: every Ping that was completely supplied before the oversize frame got exactly one Pong with its token
	out := a.TakeOut()
	var pongs [][]byte
	for len(out) > 0 {
		m, n, err := DecodeTCP(out)
		if err != nil || n == 0 {
			break
		}
		out = out[n:]
		if m.Code == 0xe3 {
			pongs = append(pongs, m.Token)
		}
	}
	pi := 0
	for _, f := range frames {
		if f.oversize || f.start+len(f.raw) > released {
			break
		}
		if f.msg.Code == 0xe2 {
			e.Probe("ping.sent")
			if pi >= len(pongs) || !bytes.Equal(pongs[pi], f.msg.Token) {
				if !closed() {
					e.Violate("C07.R2", "ping-without-pong", "ping with token %x was not answered by a pong with that token (pongs: %x)", f.msg.Token, pongs)
				}
				break
			}
			pi++
		}
	}
	if pi < len(pongs) {
		e.Violate("C07.R2", "unsolicited-pong", "%d pongs on the wire for %d pings", len(pongs), pi)
	}
}

func indexOf(fs []*c07Frame, f *c07Frame) int {
	for i, x := range fs {
		if x == f {
			return i
		}
	}
	return -1
}

// tcpHeader64 builds a frame header for a declared options+payload length up to 2^32-1+65805.
func tcpHeader64(l uint64, tkl int, code byte, token []byte) []byte {
	var out []byte
	switch {
	case l < 13:
		out = []byte{byte(l)<<4 | byte(tkl)}
	case l < 269:
		out = []byte{13<<4 | byte(tkl), byte(l - 13)}
	case l < 65805:
		x := l - 269
		out = []byte{14<<4 | byte(tkl), byte(x >> 8), byte(x)}
	default:
		x := l - 65805
		out = []byte{15<<4 | byte(tkl), byte(x >> 24), byte(x >> 16), byte(x >> 8), byte(x)}
	}
	out = append(out, code)
	out = append(out, token...)
	return out
}

var _ = pool.New
