// Package sim is the deterministic simulator ("coapsim") for plgd-dev/go-coap.
//
// One run = one synctest bubble = one Tape. The simulator goroutine is the only
// one that ever draws from the tape; everything else (library goroutines,
// handlers, scripted peers) is driven by it, one event per phase, each phase
// run to quiescence with synctest.Wait.
package sim

import (
	"fmt"
	"hash/fnv"
	"os"
	"runtime"
	"runtime/debug"
	"sort"
	"strings"
	"sync"
	"sync/atomic"
	"testing"
	"testing/synctest"
	"time"

	"github.com/plgd-dev/go-coap/v3/pkg/verifhook"
)

// EngineVersion is recorded in replay files.
const EngineVersion = 1

// ---------------------------------------------------------------- tape

// Tape is the only source of choices of a run. Option 0 is always the most
// benign choice, so zeroing / truncating a tape simplifies the execution.
type Tape struct {
	state  uint64
	replay bool
	in     []uint32
	Rec    []uint32
	pos    int
}

func splitmix64(x *uint64) uint64 {
	*x += 0x9e3779b97f4a7c15
	z := *x
	z = (z ^ (z >> 30)) * 0xbf58476d1ce4e5b9
	z = (z ^ (z >> 27)) * 0x94d049bb133111eb
	return z ^ (z >> 31)
}

// Mix derives a per-run seed from the check seed, the property and the run index.
func Mix(seed uint64, prop string, idx uint64) uint64 {
	h := fnv.New64a()
	_, _ = h.Write([]byte(prop))
	s := seed ^ h.Sum64()
	_ = splitmix64(&s)
	s ^= idx * 0xd1342543de82ef95
	return splitmix64(&s)
}

func NewPRNGTape(seed uint64) *Tape { return &Tape{state: seed} }

func NewReplayTape(vals []uint32) *Tape {
	return &Tape{replay: true, in: append([]uint32(nil), vals...)}
}

// Choose returns a value in [0,n). Every call consumes exactly one tape cell.
func (t *Tape) Choose(n int) int {
	var v uint32
	if t.replay {
		if t.pos < len(t.in) {
			v = t.in[t.pos]
		}
	} else {
		v = uint32(splitmix64(&t.state) >> 33)
	}
	t.pos++
	if n <= 1 {
		t.Rec = append(t.Rec, 0)
		return 0
	}
	r := int(v % uint32(n))
	t.Rec = append(t.Rec, uint32(r))
	return r
}

// Chance is true with probability num/den; the benign outcome (false) is value 0.
func (t *Tape) Chance(num, den int) bool {
	if num <= 0 {
		t.Choose(1)
		return false
	}
	return t.Choose(den) >= den-num
}

// Weighted picks an index with the given weights; index 0 should be the benign one.
func (t *Tape) Weighted(w ...int) int {
	total := 0
	for _, x := range w {
		total += x
	}
	if total <= 0 {
		t.Choose(1)
		return 0
	}
	v := t.Choose(total)
	for i, x := range w {
		if v < x {
			return i
		}
		v -= x
	}
	return len(w) - 1
}

// Pos is the number of cells consumed so far.
func (t *Tape) Pos() int { return t.pos }

// ---------------------------------------------------------------- results

type Violation struct {
	Rule  string `json:"rule"`
	Sig   string `json:"sig"`
	Msg   string `json:"msg"`
	Phase int    `json:"phase"`
	Pos   int    `json:"tape_pos"`
}

type RunResult struct {
	Scenario    string         `json:"scenario"`
	Hash        uint64         `json:"hash"`
	NonTrivial  bool           `json:"nontrivial"`
	Viol        []Violation    `json:"violations,omitempty"`
	Log         []string       `json:"log,omitempty"`
	Faults      map[string]int `json:"faults,omitempty"`
	Probes      map[string]int `json:"probes,omitempty"`
	SimTime     time.Duration  `json:"sim_time_ns"`
	Phases      int            `json:"phases"`
	Racy        bool           `json:"racy"`
	Undrainable string         `json:"undrainable,omitempty"`
	Tape        []uint32       `json:"tape,omitempty"`
	Real        []string       `json:"-"`
	Stub        []string       `json:"-"`
}

// ---------------------------------------------------------------- env

type parkedG struct {
	Site string
	Key  uint64
	Hit  int
	Gid  uint64 // goroutine id of the parked goroutine
	ch   chan struct{}
}

// Env is the per-run simulator state.
type Env struct {
	T    *testing.T
	Tape *Tape

	mu sync.Mutex
	// imu guards the environment's own state (log, probes, parked goroutines ...); mu above is left to the scenarios for
	// their variables, so a scenario may call any Env method while it holds mu
	imu   sync.Mutex
	log   []string
	notes []string
	viol  []Violation
	// AfterWait runs at every quiescent point, before the phase is closed; it reports whether it woke anything up
	AfterWait func() bool
	// RuleRename: a scenario hosted by another property reports under that property's rule names
	// (prefix old -> prefix new)
	RuleRename [2]string
	// NoAutoRacy: the scenario guarantees that a replaced reader loop comes back to an empty queue
	NoAutoRacy bool
	vmu        sync.Mutex
	vlog       []string
	phaseNo    atomic.Int32
	Faults     map[string]int
	Probes     map[string]int
	phase      int
	start      time.Time
	nontriv    bool
	racy       bool
	scenario   string
	tearing    bool
	siteHits   map[string]int
	parkPlan   map[string]map[int]bool
	parkAll    map[string]bool
	parked     []*parkedG
	gates      map[any]chan struct{}
	randCtr    uint64
	randBase   uint64
	cleanup    []func()
	Pool       *PoolTracker
	real       map[string]bool
	stub       map[string]bool
	MaxPhases  int
	quietLog   bool
	// RulePrefix, when set, makes Violate ignore rules of other properties (monitor runs riding on another property's workload).
	RulePrefix string
	// PoolCapacity > 0 makes every endpoint of the run use a message pool of that capacity (C12).
	PoolCapacity uint32
	phaseCh      chan struct{}
}

var progress atomic.Uint64 // bumped at every phase; read by the real-time watchdog

func newEnv(t *testing.T, tape *Tape) *Env {
	return &Env{
		T: t, Tape: tape,
		Faults: map[string]int{}, Probes: map[string]int{},
		siteHits: map[string]int{}, parkPlan: map[string]map[int]bool{}, parkAll: map[string]bool{},
		gates: map[any]chan struct{}{},
		real:  map[string]bool{}, stub: map[string]bool{},
		MaxPhases: 2000,
	}
}

// Now returns simulated time since the start of the run.
func (e *Env) Now() time.Duration { return time.Since(e.start) }

// Logf appends a line to the event log. Only the simulator goroutine may call it.
func (e *Env) Logf(format string, a ...any) {
	e.imu.Lock()
	e.log = append(e.log, fmt.Sprintf("#%d t=%v ", e.phase, e.Now())+fmt.Sprintf(format, a...))
	e.imu.Unlock()
}

// Notef records a line from a library/handler goroutine; lines of one phase are
// sorted before they enter the log (per-phase canonical form).
func (e *Env) Notef(format string, a ...any) {
	s := fmt.Sprintf(format, a...)
	e.imu.Lock()
	e.notes = append(e.notes, s)
	e.imu.Unlock()
}

func (e *Env) flushNotes() {
	e.imu.Lock()
	if len(e.notes) > 0 {
		sort.Strings(e.notes)
		for _, n := range e.notes {
			e.log = append(e.log, fmt.Sprintf("#%d   . %s", e.phase, n))
		}
		e.notes = e.notes[:0]
	}
	e.imu.Unlock()
}

// Wait runs the system to quiescence and closes the current phase.
func (e *Env) Wait() {
	synctest.Wait()
	if e.AfterWait != nil {
		// a scenario-owned relay (e.g. records of a secure-transport shim re-injected into the simulated network);
		// it may make goroutines runnable again, so quiescence is re-established afterwards
		if e.AfterWait() {
			synctest.Wait()
		}
	}
	e.flushViolations()
	e.flushNotes()
	e.imu.Lock()
	e.phase++
	e.phaseNo.Store(int32(e.phase))
	ch := e.phaseCh
	e.phaseCh = nil
	e.imu.Unlock()
	if ch != nil {
		close(ch) // goroutines that hold something "until the next phase" go on now
	}
	progress.Add(1)
}

// NextPhase returns a channel that is closed at the next phase boundary.
func (e *Env) NextPhase() <-chan struct{} {
	e.imu.Lock()
	defer e.imu.Unlock()
	if e.tearing {
		c := make(chan struct{})
		close(c)
		return c
	}
	if e.phaseCh == nil {
		e.phaseCh = make(chan struct{})
	}
	return e.phaseCh
}

// Phase returns the current phase number.
func (e *Env) Phase() int { e.imu.Lock(); defer e.imu.Unlock(); return e.phase }

// Budget reports whether the run may continue.
func (e *Env) Budget() bool { return e.Phase() < e.MaxPhases }

// Sleep advances simulated time by d (timers inside fire in timer order), then waits for quiescence.
func (e *Env) Sleep(d time.Duration) {
	if d > 0 {
		time.Sleep(d)
	}
	e.Wait()
}

// Go starts a goroutine inside the bubble.
func (e *Env) Go(f func()) { go f() }

func (e *Env) Fault(kind string) { e.imu.Lock(); e.Faults[kind]++; e.imu.Unlock() }
func (e *Env) Probe(name string) { e.imu.Lock(); e.Probes[name]++; e.imu.Unlock() }
func (e *Env) NonTrivial()       { e.imu.Lock(); e.nontriv = true; e.imu.Unlock() }
func (e *Env) MarkRacy()         { e.imu.Lock(); e.racy = true; e.imu.Unlock() }
func (e *Env) Real(c ...string) {
	e.imu.Lock()
	for _, x := range c {
		e.real[x] = true
	}
	e.imu.Unlock()
}
func (e *Env) Stub(c ...string) {
	e.imu.Lock()
	for _, x := range c {
		e.stub[x] = true
	}
	e.imu.Unlock()
}

// Violate records a violation of rule with a discriminating signature. It takes only its own lock, so an
// oracle that reports while it holds e.mu cannot wedge the run (that mistake turned violations into harness
// trouble twice).
func (e *Env) Violate(rule, sig, format string, a ...any) {
	if e.RuleRename[0] != "" && strings.HasPrefix(rule, e.RuleRename[0]) {
		rule = e.RuleRename[1] + strings.TrimPrefix(rule, e.RuleRename[0])
	}
	if e.RulePrefix != "" && !strings.HasPrefix(rule, e.RulePrefix) {
		return
	}
	e.vmu.Lock()
	defer e.vmu.Unlock()
	if len(e.viol) >= 8 {
		return
	}
	ph := int(e.phaseNo.Load())
	e.viol = append(e.viol, Violation{Rule: rule, Sig: sig, Msg: fmt.Sprintf(format, a...), Phase: ph, Pos: e.Tape.Pos()})
	e.vlog = append(e.vlog, fmt.Sprintf("#%d !! VIOLATION %s [%s] %s", ph, rule, sig, fmt.Sprintf(format, a...)))
}

func (e *Env) Violated() bool { e.vmu.Lock(); defer e.vmu.Unlock(); return len(e.viol) > 0 }

// flushViolations moves the pending violation lines into the event log.
func (e *Env) flushViolations() {
	e.vmu.Lock()
	v := e.vlog
	e.vlog = nil
	e.vmu.Unlock()
	if len(v) > 0 {
		e.imu.Lock()
		e.log = append(e.log, v...)
		e.imu.Unlock()
	}
}

// OnCleanup registers a function run during teardown (in reverse order).
func (e *Env) OnCleanup(f func()) { e.imu.Lock(); e.cleanup = append(e.cleanup, f); e.imu.Unlock() }

// ---------------------------------------------------------------- park points

// EnablePark makes the given hits (0-based occurrence numbers) of site park.
func (e *Env) EnablePark(site string, hits ...int) {
	e.imu.Lock()
	m := e.parkPlan[site]
	if m == nil {
		m = map[int]bool{}
		e.parkPlan[site] = m
	}
	for _, h := range hits {
		m[h] = true
	}
	e.imu.Unlock()
}

// EnableParkAll makes every hit of site park (micro-harness scheduling).
func (e *Env) EnableParkAll(site string) { e.imu.Lock(); e.parkAll[site] = true; e.imu.Unlock() }

// DisableParkAll stops parking at site (already parked goroutines stay parked).
func (e *Env) DisableParkAll(site string) { e.imu.Lock(); delete(e.parkAll, site); e.imu.Unlock() }

var debugSites = os.Getenv("VERIF_DEBUG_SITES") != ""

func (e *Env) yieldHook(site string, key uint64) {
	if debugSites {
		e.Notef("site %s hit=%d key=%x g=%d", site, e.SiteHits(site), key, goid())
	}
	e.imu.Lock()
	n := e.siteHits[site]
	e.siteHits[site] = n + 1
	park := !e.tearing && (e.parkAll[site] || (e.parkPlan[site] != nil && e.parkPlan[site][n]))
	var pg *parkedG
	if park {
		pg = &parkedG{Site: site, Key: key, Hit: n, ch: make(chan struct{})}
		e.parked = append(e.parked, pg)
	}
	// A request issued while a reader loop is inside a handler replaces the loop. When the old
	// loop comes back its select may have two ready cases ("replaced" and "message queued"), so it
	// may keep consuming next to the new loop: who processes what, and who draws which outgoing
	// message ID, is the runtime's choice from then on. Such runs are marked racy (DESIGN 3.4).
	if site == "reader.replace.beforeLock" && e.siteHits["reader.afterFlagClear"] > e.siteHits["reader.afterHandler"] {
		if !e.NoAutoRacy {
			e.racy = true
		}
		e.Probes["readerLoop.replacedWhileInHandler"]++
	}
	e.imu.Unlock()
	if park {
		pg.Gid = goid()
		<-pg.ch
	}
}

// Parked returns the goroutines currently parked, in park order.
func (e *Env) Parked() []*parkedG {
	e.imu.Lock()
	defer e.imu.Unlock()
	return append([]*parkedG(nil), e.parked...)
}

// Resume releases one parked goroutine.
func (e *Env) Resume(pg *parkedG) {
	e.imu.Lock()
	for i, p := range e.parked {
		if p == pg {
			e.parked = append(e.parked[:i], e.parked[i+1:]...)
			break
		}
	}
	e.imu.Unlock()
	close(pg.ch)
}

// DisableAllParks stops all further parking (parked goroutines stay parked until resumed).
func (e *Env) DisableAllParks() {
	e.imu.Lock()
	e.parkPlan = map[string]map[int]bool{}
	e.parkAll = map[string]bool{}
	e.imu.Unlock()
}

// SiteHits returns how often a site was reached.
func (e *Env) SiteHits(site string) int { e.imu.Lock(); defer e.imu.Unlock(); return e.siteHits[site] }

// ---------------------------------------------------------------- gates and deterministic randomness

func (e *Env) gateAcquire(g any) {
	e.imu.Lock()
	ch := e.gates[g]
	if ch == nil {
		ch = make(chan struct{}, 1)
		e.gates[g] = ch
	}
	e.imu.Unlock()
	select {
	case ch <- struct{}{}:
	default:
		e.Probe("gate.contended")
		ch <- struct{}{}
	}
}

func (e *Env) gateRelease(g any) {
	e.imu.Lock()
	ch := e.gates[g]
	e.imu.Unlock()
	if ch != nil {
		select {
		case <-ch:
		default:
		}
	}
}

func (e *Env) randRead(b []byte) bool {
	e.imu.Lock()
	e.randCtr++
	s := e.randBase + e.randCtr*0x9e3779b97f4a7c15
	e.imu.Unlock()
	for i := range b {
		if i%8 == 0 {
			_ = splitmix64(&s)
		}
		b[i] = byte(s >> (8 * (i % 8)))
	}
	if len(b) > 0 {
		b[0] |= 0x80 // never collide with harness-chosen small tokens
	}
	return true
}

// ---------------------------------------------------------------- scenarios and properties

type Scenario struct {
	Name   string
	Weight int
	Run    func(e *Env)
}

type PropDef struct {
	ID        string
	Title     string
	Rule      string // what makes a run non-trivial / distinct (evidence)
	Scenarios []Scenario
	Quick     int // simulated runs, quick tier
	Thorough  int // simulated runs, thorough tier
	Assume    []string
	Exhaust   func(idx int) (tape []uint32, ok bool) // optional exhaustive prefix (C20)
	ExhaustN  int
	// Require: probes / fault kinds that must have occurred at least once in a full-size batch
	// (checked by the orchestrator; a condition stuck at zero is harness trouble, exit 2)
	Require []string
}

var Registry = map[string]*PropDef{}

func Register(p *PropDef) { Registry[p.ID] = p }

func (p *PropDef) pick(t *Tape) *Scenario {
	w := make([]int, len(p.Scenarios))
	for i := range p.Scenarios {
		w[i] = p.Scenarios[i].Weight
		if w[i] <= 0 {
			w[i] = 1
		}
	}
	return &p.Scenarios[t.Weighted(w...)]
}

// Execute runs one simulated execution of property p under tape.
func Execute(t *testing.T, p *PropDef, tape *Tape, keepLog bool) (res *RunResult) {
	env := newEnv(t, tape)
	env.randBase = 0x5eed0000
	hooks := &verifhook.Hooks{
		Yield:       env.yieldHook,
		GateAcquire: env.gateAcquire,
		GateRelease: env.gateRelease,
		RandRead:    env.randRead,
	}
	env.Pool = newPoolTracker(env)
	hooks.PoolRelease = env.Pool.onRelease
	hooks.PoolPut = env.Pool.onPut
	hooks.PoolAcquire = env.Pool.onAcquire
	verifhook.Install(hooks)
	defer verifhook.Install(nil)
	res = &RunResult{}
	func() {
		defer func() {
			if r := recover(); r != nil {
				s := fmt.Sprint(r)
				if strings.Contains(s, "deadlock") {
					res.Undrainable = s + "\n" + bubbleStacks()
				} else {
					panic(r)
				}
			}
		}()
		synctest.Test(t, func(t *testing.T) {
			env.start = time.Now()
			sc := p.pick(tape)
			env.scenario = sc.Name
			env.log = append(env.log, "scenario "+sc.Name)
			sc.Run(env)
			res.SimTime = env.Now()
			env.teardown()
		})
	}()
	env.flushViolations()
	env.imu.Lock()
	defer env.imu.Unlock()
	res.Scenario = env.scenario
	res.NonTrivial = env.nontriv
	res.Viol = env.viol
	res.Faults = env.Faults
	res.Probes = env.Probes
	res.Phases = env.phase
	res.Racy = env.racy
	h := fnv.New64a()
	for _, l := range env.log {
		_, _ = h.Write([]byte(l))
		_, _ = h.Write([]byte{'\n'})
	}
	res.Hash = h.Sum64()
	if keepLog || len(env.viol) > 0 {
		res.Log = env.log
	}
	res.Tape = append([]uint32(nil), tape.Rec...)
	for k := range env.real {
		res.Real = append(res.Real, k)
	}
	for k := range env.stub {
		res.Stub = append(res.Stub, k)
	}
	sort.Strings(res.Real)
	sort.Strings(res.Stub)
	return res
}

func (e *Env) teardown() {
	e.imu.Lock()
	e.tearing = true
	if e.phaseCh != nil {
		close(e.phaseCh)
		e.phaseCh = nil
	}
	parked := e.parked
	e.parked = nil
	cl := e.cleanup
	e.cleanup = nil
	e.imu.Unlock()
	for _, pg := range parked {
		close(pg.ch)
	}
	for i := len(cl) - 1; i >= 0; i-- {
		cl[i]()
	}
	synctest.Wait()
	// give lingering timers a chance to fire and goroutines to exit
	for i := 0; i < 3; i++ {
		time.Sleep(time.Hour)
		synctest.Wait()
	}
	e.flushNotes()
}

func bubbleStacks() string {
	buf := make([]byte, 1<<20)
	n := runtime.Stack(buf, true)
	var out []string
	for _, g := range strings.Split(string(buf[:n]), "\n\n") {
		if strings.Contains(g, "synctest") || strings.Contains(g, "bubble") {
			lines := strings.Split(g, "\n")
			if len(lines) > 14 {
				lines = lines[:14]
			}
			out = append(out, strings.Join(lines, "\n"))
		}
	}
	if len(out) > 12 {
		out = out[:12]
	}
	return strings.Join(out, "\n\n")
}

// ---------------------------------------------------------------- event picking helper

type Event struct {
	Label string
	W     int
	Do    func()
}

// Pick chooses one of the enabled events with the tape (weights; event 0 = most benign).
func (e *Env) Pick(evs []Event) *Event {
	if len(evs) == 0 {
		return nil
	}
	w := make([]int, len(evs))
	for i := range evs {
		w[i] = evs[i].W
		if w[i] <= 0 {
			w[i] = 1
		}
	}
	return &evs[e.Tape.Weighted(w...)]
}

func init() {
	// deterministic LIFO pool reuse and FIFO run queue (see DESIGN §3.4)
	debug.SetGCPercent(-1)
}
