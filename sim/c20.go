package sim

import (
	"bytes"
	"fmt"

	"github.com/plgd-dev/go-coap/v3/message"
	"github.com/plgd-dev/go-coap/v3/message/codes"
	"github.com/plgd-dev/go-coap/v3/message/pool"
	"github.com/plgd-dev/go-coap/v3/mux"
	"github.com/plgd-dev/go-coap/v3/net/responsewriter"
	"github.com/plgd-dev/go-coap/v3/options"
	"github.com/plgd-dev/go-coap/v3/tcp"
	udpClient "github.com/plgd-dev/go-coap/v3/udp/client"
)

// C20 — No-Response suppression follows RFC 7967 for every value and code.
//
// The finite table v in 0..255 (every value a request can carry: the option is at most
// one byte long, longer values are dropped by the decoder as malformed) x code in 0..255 x
// {UDP CON, UDP NON, DTLS CON, TCP} is enumerated completely through a real server-side
// connection (the first 262144 run indices); later indices repeat random table cells.

const c20Table = 3 * 4 * 256 * 256

// the three ways the response writer offers to set a response
var c20How = []string{"SetResponse", "SetMessage", "Message()"}

func init() {
	Register(&PropDef{
		ID:    "C20",
		Title: "No-Response suppression follows RFC 7967 for every value and code",
		Rule: "run index i < 262144 enumerates (transport/type, option value 0..255 = every value the one-byte option can carry, response code 0..255) completely; the options that accompany No-Response (none, lower-numbered, unknown elective ones numbered above 258, both, a known option of illegal length that the decoder skips) rotate over the cells; each run sends the request (and, on datagram transports, a network duplicate of it) to a real connection whose handler sets the response in one of the three ways the response writer has - SetResponse(code), SetMessage(a message of that code), Message().SetCode(code) - ; only the first can refuse, all three are judged on the wire; scenario S-NORESP/blockwise: the block-wise layer's own 4.08 (a final block of an upload nobody started) a two-block upload answered by the handler, with No-Response on every block, and a download whose request for block 1 carries the option; in a fifth of the SetResponse cells the handler goes on to add an option through Message() after the refusal; " +
			"non-trivial = the option suppresses at least one class (value has bit 2, 8 or 16); distinct = distinct (transport, value, code) log hash",
		Scenarios: []Scenario{{Name: "S-NORESP", Weight: 6, Run: c20Run}, {Name: "S-NORESP/blockwise", Weight: 1, Run: c20BlockwiseRun}},
		Quick:     c20Table + 70000,
		Thorough:  c20Table + 1500000,
		ExhaustN:  c20Table,
		Exhaust: func(idx int) ([]uint32, bool) {
			if idx >= c20Table {
				return nil, false
			}
			// draws of c20Run: scenario, transport/type, value, code, way of setting
			return []uint32{0, uint32(idx/65536) % 4, uint32((idx / 256) % 256), uint32(idx % 256), uint32(idx / (4 * 65536))}, true
		},
		Require: []string{"handler.retriedAfterRefusal", "how.SetResponse", "how.SetMessage", "how.Message()", "blockwise.incomplete.suppressed", "blockwise.incomplete.sent", "blockwise.upload.suppressed", "blockwise.upload.answered", "company.0", "company.1", "company.2", "company.3", "company.4", "handler.decoratedARefusedResponse", "blockwise.download.suppressed", "blockwise.download.answered"},
		Assume: []string{
			"specification function written from RFC 7967: class = code>>5; suppressed iff (class 2 and value&2) or (class 4 and value&8) or (class 5 and value&16)",
			"nothing here depends on the schedule; the property is claimed for the wire-level consequence, which only an endpoint in a (simulated) network shows",
		},
	})
}

func c20Run(e *Env) {
	t := e.Tape
	kind := t.Choose(4) // 0 UDP CON, 1 UDP NON, 2 DTLS CON, 3 TCP
	v := uint32(t.Choose(256))
	code := byte(t.Choose(256))
	how := t.Choose(3)
	e.Probe("how." + c20How[how])
	tr := []string{TrUDP, TrUDP, TrDTLS, TrTCP}[kind]
	reqType := TCON
	if kind == 1 {
		reqType = TNON
	}
	// which other options accompany No-Response: rotated over the table cells (every (value, code) pair meets all
	// four companies across the four transports); runs beyond the table add a random offset
	company := (kind + int(v) + int(code)/4 + t.Choose(5)) % 5
	class := code >> 5
	suppressed := (class == 2 && v&2 != 0) || (class == 4 && v&8 != 0) || (class == 5 && v&16 != 0)
	if v&(2|8|16) != 0 {
		e.NonTrivial()
	}

	// in a third of the cells a handler whose response was refused tries again with 5.00 (what an application does
	// when its first answer "fails"): the second attempt is judged on its own, and the response still belongs to the request
	retry := (int(v)+int(code))%3 == 0 && how == 0
	// in a fifth of the cells a handler whose response was refused goes on to decorate it through Message() - an
	// ETag, Max-Age: the style the comment of SetResponse recommends for anything beyond code and body
	decorate := !retry && (int(v)+int(code))%5 == 1 && how == 0
	const retryCode = byte(0xa0)
	retrySuppressed := v&16 != 0
	var refusals, handlerRuns, retries, retryRefusals int
	handle := func(set func(code codes.Code) error, addOption func()) {
		err := set(codes.Code(code))
		var err2 error
		tried := false
		if err != nil && retry {
			tried = true
			err2 = set(codes.Code(retryCode))
		}
		if err != nil && decorate {
			e.Probe("handler.decoratedARefusedResponse")
			addOption()
		}
		e.mu.Lock()
		handlerRuns++
		if err != nil {
			refusals++
		}
		if tried {
			retries++
			if err2 != nil {
				retryRefusals++
			}
		}
		e.mu.Unlock()
		e.Notef("handler: %s(%d.%02d) -> refused=%v retried=%v refused-again=%v", c20How[how], code>>5, code&31, err != nil, tried, err2 != nil)
	}
	body := []byte("body")
	token := []byte{0x33, 0x44}
	var w *CWorld
	if IsDatagram(tr) {
		cfg := SimUDPConfig(1000)
		cfg.BlockwiseEnable = false
		cfg.Handler = func(rw *responsewriter.ResponseWriter[*udpClient.Conn], r *pool.Message) {
			handle(func(c codes.Code) error {
				switch how {
				case 1:
					m := rw.Conn().AcquireMessage(rw.Conn().Context())
					m.SetCode(c)
					m.SetToken(r.Token())
					m.SetContentFormat(message.TextPlain)
					m.SetBody(bytes.NewReader(body))
					rw.SetMessage(m)
					return nil
				case 2:
					rw.Message().SetCode(c)
					rw.Message().SetContentFormat(message.TextPlain)
					rw.Message().SetBody(bytes.NewReader(body))
					return nil
				}
				return rw.SetResponse(c, message.TextPlain, bytes.NewReader(body))
			}, func() { rw.Message().SetOptionUint32(message.MaxAge, 60) })
		}
		w = NewCWorld(e, CWorldCfg{Transport: tr, UDP: cfg})
	} else {
		r := mux.NewRouter()
		r.DefaultHandle(mux.HandlerFunc(func(rw mux.ResponseWriter, r *mux.Message) {
			handle(func(c codes.Code) error {
				switch how {
				case 1:
					m := rw.Conn().AcquireMessage(rw.Conn().Context())
					m.SetCode(c)
					m.SetToken(r.Token())
					m.SetContentFormat(message.TextPlain)
					m.SetBody(bytes.NewReader(body))
					rw.SetMessage(m)
					return nil
				case 2:
					rw.Message().SetCode(c)
					rw.Message().SetContentFormat(message.TextPlain)
					rw.Message().SetBody(bytes.NewReader(body))
					return nil
				}
				return rw.SetResponse(c, message.TextPlain, bytes.NewReader(body))
			}, func() { rw.Message().SetOptionUint32(message.MaxAge, 60) })
		}))
		w = NewCWorld(e, CWorldCfg{Transport: tr, TCPOpts: []tcp.Option{options.WithMux(r), options.WithCloseSocket()}})
	}
	if w == nil {
		return
	}
	e.Real("net/responsewriter", "message/noresponse")
	e.Wait()
	w.Pump()
	e.Logf("case transport=%s type=%d no-response=%d code=%d.%02d (class %d) company=%d how=%s -> suppressed=%v", tr, reqType, v, code>>5, code&31, class, company, c20How[how], suppressed)

	var wire []*WMsg
	w.OnRecv = func(m *WMsg) {
		if !IsDatagram(tr) && m.Code == 0xe1 && !bytes.Equal(m.Token, token) {
			return // the endpoint's own CSM
		}
		wire = append(wire, m)
		if IsDatagram(tr) && m.Type == TCON {
			// acknowledge a confirmable response (to a NON request)
			w.Queue(&WMsg{Type: TACK, Code: 0, MID: m.MID}, "ack-of-response")
		}
	}
	req := &WMsg{Type: reqType, Code: 1, MID: 7777, Token: token, Opts: []WOpt{{Num: OptURIPath, Val: []byte("x")}}}
	if company == 4 {
		// a known option with an illegal length before No-Response: the decoder skips it silently (RFC 7252 5.4.3)
		// and everything after it keeps its number
		req.Opts = append(req.Opts, WOpt{Num: OptURIQuery, Val: []byte("a=b")}, WOpt{Num: 14, Val: bytes.Repeat([]byte{1}, 5)}) // Max-Age of 5 bytes
	} else if company&1 != 0 {
		req.Opts = append(req.Opts, WOpt{Num: OptURIQuery, Val: []byte("a=b")}, WOpt{Num: 60, Val: []byte{7}}) // Uri-Query, Size1
	}
	req.Opts = append(req.Opts, UintOpt(OptNoResponse, v))
	if company != 4 && company&2 != 0 {
		// elective options the library does not know, numbered above No-Response (vendor / experimental range)
		req.Opts = append(req.Opts, WOpt{Num: 2050, Val: []byte{1, 2}}, WOpt{Num: 65000, Val: []byte("z")})
	}
	e.Probe(fmt.Sprintf("company.%d", company))
	copies := 1
	if IsDatagram(tr) {
		copies = 2
	}
	it := w.Queue(req, "request")
	for i := 0; i < copies; i++ {
		w.Emit(it, i+1 < copies)
		e.Wait()
		w.Pump()
		w.prune()
		for _, x := range append([]*OutItem(nil), w.Outbox...) {
			if x != it {
				w.Emit(x, false)
				e.Wait()
				w.Pump()
			}
		}
	}
	e.mu.Lock()
	runs, refused := handlerRuns, refusals
	e.mu.Unlock()
	if runs == 0 {
		e.Violate("C20.R0", "handler-not-invoked", "the request never reached the handler")
		return
	}
	// R1 (only SetResponse can refuse)
	if how != 0 {
		if refused != 0 {
			e.Violate("C20.R1", "refusal-from-a-call-that-cannot-refuse", "%s reported a refusal", c20How[how])
		}
	} else if suppressed && refused != runs {
		e.Violate("C20.R1", fmt.Sprintf("not-refused:class%d", class), "No-Response=%d marks class %d.xx as not of interest, but SetResponse(%d.%02d) was accepted", v, class, code>>5, code&31)
	}
	if how == 0 && !suppressed && refused != 0 {
		e.Violate("C20.R1", fmt.Sprintf("refused-although-of-interest:class%d", class), "No-Response=%d does not suppress class %d.xx, but SetResponse(%d.%02d) was refused", v, class, code>>5, code&31)
	}
	// R2 / R3 on the wire
	responses, bareAcks := 0, 0
	for _, m := range wire {
		switch {
		case IsDatagram(tr) && m.Type == TACK && m.Code == 0 && len(m.Token) == 0 && m.MID == 7777:
			bareAcks++
		case bytes.Equal(m.Token, token):
			responses++
			want := code
			if suppressed && retry && !retrySuppressed {
				want = retryCode // the first answer was refused and the handler answered 5.00 instead
			}
			if m.Code != want {
				e.Violate("C20.R3", "response-code-differs", "response on the wire has code %d.%02d, handler set %d.%02d", m.Code>>5, m.Code&31, code>>5, code&31)
			}
		}
	}
	if suppressed && retry {
		e.Probe("handler.retriedAfterRefusal")
		// the first answer was refused, the handler tried 5.00
		if retrySuppressed && retryRefusals != retries {
			e.Violate("C20.R1", "not-refused:class5", "No-Response=%d suppresses 5.xx, but the second SetResponse(5.00) was accepted", v)
		}
		if !retrySuppressed {
			if retryRefusals != 0 {
				e.Violate("C20.R1", "refused-although-of-interest:class5", "No-Response=%d does not suppress 5.xx, but SetResponse(5.00) after a refused %d.%02d was refused as well", v, code>>5, code&31)
			}
			got := 0
			for _, m := range wire {
				if m.Code == retryCode && bytes.Equal(m.Token, token) {
					got++
				}
			}
			if got != copies {
				e.Violate("C20.R3", "response-after-refusal-lost", "after the refused %d.%02d the handler answered 5.00 (not suppressed by No-Response=%d): %d copies of the request, %d such responses with the request's token on the wire: %v", code>>5, code&31, v, copies, got, wire)
			}
			return
		}
	}
	switch {
	case suppressed:
		if responses != 0 {
			e.Violate("C20.R2", fmt.Sprintf("suppressed-response-on-wire:class%d:%s", class, c20How[how]), "a %d.%02d response set with %s was put on the wire %d times although No-Response=%d suppresses it", code>>5, code&31, c20How[how], responses, v)
		}
		if IsDatagram(tr) && reqType == TCON && bareAcks != copies {
			e.Violate("C20.R2", "confirmable-request-not-acknowledged", "%d copies of the confirmable request were delivered, %d bare acknowledgements seen", copies, bareAcks)
		}
	default:
		if responses != copies && !(code == 0 && !(reqType == TCON && IsDatagram(tr))) {
			e.Violate("C20.R3", fmt.Sprintf("response-count:class%d", class), "%d copies of the request were delivered, the %d.%02d response (not suppressed by No-Response=%d) appeared %d times on the wire", copies, code>>5, code&31, v, responses)
		}
	}
}
