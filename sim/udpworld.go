package sim

import (
	"net"
	"time"

	udpClient "github.com/plgd-dev/go-coap/v3/udp/client"
)

// UWorld: one real datagram endpoint (udp/client.Conn over the real session and
// UDPConn) and one scripted peer on the simulated network.
type UWorld struct {
	E        *Env
	N        *DNet
	EP       *UDPEndpoint
	EPAddr   *net.UDPAddr
	PeerAddr *net.UDPAddr
	OnPeer   func(m *WMsg, d *Dgram) // reaction of the scripted peer (simulator goroutine)
	PeerMID  uint16
	Faults   NetFaults
	// OnDeliverToEP is called (simulator goroutine) right before a datagram is handed to the endpoint.
	OnDeliverToEP func(m *WMsg, d *Dgram, dup bool)
}

// NetFaults are the per-run weights of network faults (0 = disabled in this run).
type NetFaults struct {
	DropToEP, DropToPeer int
	DupToEP, DupToPeer   int
	DeliverW             int
}

func NewUWorld(e *Env, cfg udpClient.Config, mod func(*UDPEndpointCfg)) *UWorld {
	w := &UWorld{E: e, N: NewDNet(e), EPAddr: UDPAddr("10.0.0.1", 5000), PeerAddr: UDPAddr("10.0.0.2", 5683), PeerMID: 40000}
	w.Faults.DeliverW = 6
	c := UDPEndpointCfg{Cfg: cfg, Local: w.EPAddr, Remote: w.PeerAddr}
	if mod != nil {
		mod(&c)
	}
	w.EP = NewUDPEndpoint(e, w.N, c)
	w.N.ScriptedPeer(w.PeerAddr, func(d *Dgram) {
		m, err := DecodeUDP(d.Data)
		if err != nil {
			e.Violate("HARNESS", "endpoint-sent-garbage", "scripted peer cannot parse a datagram of the endpoint: %v", err)
			return
		}
		if w.OnPeer != nil {
			w.OnPeer(m, d)
		}
	})
	return w
}

// NextPeerMID returns a fresh message ID for messages originated by the scripted peer.
func (w *UWorld) NextPeerMID() uint16 { w.PeerMID++; return w.PeerMID }

// PeerSend puts a message of the scripted peer on the network (pending until delivered).
func (w *UWorld) PeerSend(m *WMsg) *Dgram {
	return w.N.Inject(w.PeerAddr, w.EPAddr, EncodeUDP(m))
}

// PeerSendRaw puts raw bytes of the scripted peer on the network.
func (w *UWorld) PeerSendRaw(b []byte) *Dgram { return w.N.Inject(w.PeerAddr, w.EPAddr, b) }

func (w *UWorld) toPeer(d *Dgram) bool { return d.Dst.String() == w.PeerAddr.String() }

// DeliverNow delivers d (removing it from pending) and runs to quiescence is left to the caller.
func (w *UWorld) DeliverNow(d *Dgram, dup bool) {
	if !dup {
		w.N.Take(d)
	}
	if !w.toPeer(d) && w.OnDeliverToEP != nil {
		if m, err := DecodeUDP(d.Data); err == nil {
			w.OnDeliverToEP(m, d, dup)
		}
	}
	w.N.Deliver(d)
}

// NetEvents returns the delivery / loss / duplication events for everything pending.
func (w *UWorld) NetEvents() []Event {
	e := w.E
	var evs []Event
	for _, d := range w.N.PendingList() {
		d := d
		toPeer := w.toPeer(d)
		evs = append(evs, Event{Label: "deliver", W: w.Faults.DeliverW, Do: func() {
			e.Logf("deliver %s #%d %s", dirName(toPeer), d.ID, descr(d.Data))
			w.DeliverNow(d, false)
		}})
		drop, dup := w.Faults.DropToEP, w.Faults.DupToEP
		if toPeer {
			drop, dup = w.Faults.DropToPeer, w.Faults.DupToPeer
		}
		if drop > 0 {
			evs = append(evs, Event{Label: "drop", W: drop, Do: func() {
				w.N.Take(d)
				e.Fault("dgram.drop")
				e.Logf("drop %s #%d", dirName(toPeer), d.ID)
			}})
		}
		if dup > 0 && d.Dups < 2 {
			evs = append(evs, Event{Label: "dup", W: dup, Do: func() {
				d.Dups++
				e.Fault("dgram.dup")
				e.Logf("dup-deliver %s #%d %s", dirName(toPeer), d.ID, descr(d.Data))
				w.DeliverNow(d, true)
			}})
		}
	}
	return evs
}

// TickEvent advances time by one of dts and runs the housekeeping tick.
func (w *UWorld) TickEvent(weight int, dts ...time.Duration) Event {
	e := w.E
	return Event{Label: "tick", W: weight, Do: func() {
		dt := dts[e.Tape.Choose(len(dts))]
		e.Logf("advance %v then tick", dt)
		e.Sleep(dt)
		e.Fault("tick")
		w.EP.Tick(time.Now())
	}}
}

// Drain delivers everything pending without faults (heal-and-drain tail), ticking in between.
func (w *UWorld) Drain(rounds int, dt time.Duration) {
	e := w.E
	for i := 0; i < rounds; i++ {
		for n := 0; n < 200; n++ {
			p := w.N.PendingList()
			if len(p) == 0 {
				break
			}
			w.DeliverNow(p[0], false)
			e.Wait()
		}
		e.Sleep(dt)
		w.EP.Tick(time.Now())
		e.Wait()
	}
}
