package sim

// C12 — a pooled message has one owner at a time.
//
// A monitor, not a scenario of its own: it rides on the workloads of C03, C04,
// C05, C06, C08 and C11 with the message pool switched on (capacity 1 or many,
// LIFO reuse: a released object is the very next one handed out) and the
// H-POOL tracker armed. Only C12 rules count in these runs; what the host
// workload's own oracle thinks is the host property's business.

func init() {
	host := func(name string, run func(e *Env)) Scenario {
		return Scenario{Name: "POOL/" + name, Weight: 1, Run: func(e *Env) {
			e.RulePrefix = "C12."
			e.Pool.Enabled = true
			e.PoolCapacity = []uint32{1, 2, 1024}[e.Tape.Choose(3)]
			e.Real("message/pool.Pool (capacity > 0, LIFO reuse)")
			run(e)
			e.imu.Lock()
			rec, rel := e.Pool.Recycled, e.Pool.Releases
			e.imu.Unlock()
			if rec > 0 {
				e.NonTrivial()
				e.Probe("pool.objectRecycled")
			}
			if rel > 0 {
				e.Probe("pool.released")
			}
		}}
	}
	Register(&PropDef{
		ID:    "C12",
		Title: "A pooled message has one owner at a time",
		Rule: "the workloads of C03 (requests), C04 (block-wise between two real endpoints, with and without faults), C05 (de-duplication), C06 (retransmission), C08 (observe) and C11 (nested handlers) run with a message pool of capacity 1, 2 or 1024 and the life-cycle tracker armed: release hook (before the capacity test), poison on put, poison check on acquire, application holds (response from return until release two phases later, request inside its handler, notification inside its callback); POOL/late-block: a duplicated block of a block-wise response reaches a second reader loop while the final block is being processed by the first; POOL/middleware: the application wraps the handler chain (WithProcessReceivedMessageFunc) with post-processing that the simulator parks, and releases responses the moment it gets them; " +
			"non-trivial = at least one released object was handed out again during the run; distinct = distinct event-log hash",
		Scenarios: []Scenario{
			host("C03", c03Run),
			host("C04/udp-faults", func(e *Env) { c04Run(e, TrUDP, true) }),
			host("C04/udp", func(e *Env) { c04Run(e, TrUDP, false) }),
			host("C04/tcp", func(e *Env) { c04Run(e, TrTCP, false) }),
			host("C05/boundary", func(e *Env) { c05Run(e, false) }),
			host("C05/concurrent", func(e *Env) { c05Run(e, true) }),
			host("C06", c06Run),
			host("C08", c08Run),
			host("C11", c11Run),
			host("C13/scripted", c13Run),
			host("C04/scripted-fetch", c04ScriptedFetch),
			host("middleware", c12Middleware),
			host("upload-reader", c12UploadReader),
			host("late-token-handler", c12LateTokenHandler),
			host("late-block", c12LateBlock),
		},
		Quick:    200000,
		Thorough: 3000000,
		Require:  []string{"upload.contextEndedDuringLibraryRead", "pool.objectRecycled", "middleware.resumedAfterAppWasDone", "transfer.multiBlock", "retransmission", "latehandler.resumedAfterRequestWasReleased", "lateblock.copyWaitsForTheGuard", "lateblock.copyJoinsThroughLoadOrStore"},
		Assume: []string{
			"read-after-release is detected by its effects (poison on the wire or in a hand-over), not by intercepting every accessor; data races are outside a cooperative simulation",
			"GC is off during a run and workers use one P, so sync.Pool hands objects back in LIFO order: the object released last is acquired next",
		},
	})
}
