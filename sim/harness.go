package sim

import (
	"bytes"
	"context"
	"fmt"
	"sync"
	"time"

	"github.com/plgd-dev/go-coap/v3/message"
	"github.com/plgd-dev/go-coap/v3/message/pool"
)

// RespInfo is a value copy of a response/request handed to the application.
type RespInfo struct {
	Code    byte
	Type    int
	MID     int32
	Token   []byte
	Payload []byte
	Opts    []WOpt
}

func (r *RespInfo) String() string {
	if r == nil {
		return "<nil>"
	}
	pl := fmt.Sprintf("%q", r.Payload)
	if len(r.Payload) > 32 {
		pl = fmt.Sprintf("[%d]%x..", len(r.Payload), r.Payload[:8])
	}
	return fmt.Sprintf("%d.%02d tok=%x pl=%s", r.Code>>5, r.Code&31, r.Token, pl)
}

func (r *RespInfo) Opt(num uint16) ([]byte, bool) {
	for _, o := range r.Opts {
		if o.Num == num {
			return o.Val, true
		}
	}
	return nil, false
}

// Snapshot copies everything the application can see of m.
func Snapshot(m *pool.Message) *RespInfo {
	if m == nil {
		return nil
	}
	ri := &RespInfo{Code: byte(m.Code()), Type: int(m.Type()), MID: m.MessageID(), Token: append([]byte(nil), m.Token()...)}
	for _, o := range m.Options() {
		ri.Opts = append(ri.Opts, WOpt{Num: uint16(o.ID), Val: append([]byte(nil), o.Value...)})
	}
	if m.Body() != nil {
		b, err := m.ReadBody()
		if err == nil {
			ri.Payload = append([]byte(nil), b...)
		}
	}
	return ri
}

func (a *RespInfo) Equal(b *RespInfo) bool {
	if a == nil || b == nil {
		return a == b
	}
	if a.Code != b.Code || !bytes.Equal(a.Token, b.Token) || !bytes.Equal(a.Payload, b.Payload) || len(a.Opts) != len(b.Opts) {
		return false
	}
	for i := range a.Opts {
		if a.Opts[i].Num != b.Opts[i].Num || !bytes.Equal(a.Opts[i].Val, b.Opts[i].Val) {
			return false
		}
	}
	return true
}

// Call is one blocking API call issued by a simulated caller task.
type Call struct {
	Name   string
	Nonce  int
	Ctx    context.Context
	Cancel context.CancelFunc

	mu        sync.Mutex
	started   bool
	done      bool
	resp      *RespInfo
	err       error
	donePhase int
	doneAt    time.Duration
	Cancelled bool // the simulator cancelled the context
	CancelAt  int  // phase of the cancellation
	Deadline  time.Duration
	Extra     any
	// ReleaseAtOnce: the application is done with the response the moment it gets it (no hold)
	ReleaseAtOnce bool
	// ReadLater: the caller reads the response again that many phases after the call returned, then releases it;
	// OnChanged is told when it no longer is what the call returned
	ReadLater int
	OnChanged func(was, now *RespInfo)
}

func (c *Call) Done() bool { c.mu.Lock(); defer c.mu.Unlock(); return c.done }
func (c *Call) Result() (*RespInfo, error) {
	c.mu.Lock()
	defer c.mu.Unlock()
	return c.resp, c.err
}
func (c *Call) DonePhase() int        { c.mu.Lock(); defer c.mu.Unlock(); return c.donePhase }
func (c *Call) DoneAt() time.Duration { c.mu.Lock(); defer c.mu.Unlock(); return c.doneAt }

// NewCall prepares a call with a context; timeout 0 means cancel-only.
func (e *Env) NewCall(name string, nonce int, parent context.Context, timeout time.Duration) *Call {
	c := &Call{Name: name, Nonce: nonce}
	if parent == nil {
		parent = context.Background()
	}
	if timeout > 0 {
		// deadlines of different calls never coincide: two timers firing at the same
		// instant make two select cases ready at once, which the runtime - not the tape - would decide
		timeout += time.Duration(nonce+1) * 1013 * time.Nanosecond
		c.Ctx, c.Cancel = context.WithTimeout(parent, timeout)
		c.Deadline = e.Now() + timeout
	} else {
		c.Ctx, c.Cancel = context.WithCancel(parent)
	}
	e.OnCleanup(c.Cancel)
	return c
}

// Start runs f in a new goroutine and records its result. release is called on a non-nil response after the snapshot.
func (e *Env) Start(c *Call, f func(ctx context.Context) (*pool.Message, error), release func(*pool.Message)) {
	c.mu.Lock()
	c.started = true
	c.mu.Unlock()
	go func() {
		resp, err := f(c.Ctx)
		var ri *RespInfo
		if resp != nil {
			if e.Pool.Enabled && !c.ReleaseAtOnce {
				e.Pool.Hold(resp, "response of "+c.Name)
			}
			ri = Snapshot(resp)
			if e.Pool.Enabled && c.ReleaseAtOnce {
				e.Pool.CheckHandover(ri, "response of "+c.Name)
			} else if e.Pool.Enabled {
				// the application keeps the response for two more phases before it releases it
				e.Pool.CheckHandover(ri, "response of "+c.Name)
				<-e.NextPhase()
				<-e.NextPhase()
				e.Pool.CheckHeld(resp, ri)
				e.Pool.Unhold(resp)
			}
			if release != nil && c.ReadLater == 0 {
				release(resp)
			}
		}
		if resp != nil && c.ReadLater > 0 {
			// the caller keeps the response for a few phases and reads it again before it releases it: what it was
			// given is its own until then
			defer func() {
				for i := 0; i < c.ReadLater; i++ {
					<-e.NextPhase()
				}
				if now := Snapshot(resp); !now.Equal(ri) && c.OnChanged != nil {
					c.OnChanged(ri, now)
				}
				if release != nil {
					release(resp)
				}
			}()
		}
		c.mu.Lock()
		c.done = true
		c.resp = ri
		c.err = err
		c.donePhase = e.Phase()
		c.doneAt = e.Now()
		c.mu.Unlock()
		if err != nil {
			e.Notef("call %s returned error: %s", c.Name, trimErr(err))
		} else {
			e.Notef("call %s returned %s", c.Name, ri)
		}
	}()
}

func trimErr(err error) string {
	s := err.Error()
	// pool.Message.String() output contains pointers / unstable details: keep error text short and stable
	if i := bytes.IndexByte([]byte(s), '&'); i >= 0 {
		s = s[:i] + "…"
	}
	if len(s) > 160 {
		s = s[:160] + "…"
	}
	return s
}

// CancelCall cancels the context of c as a simulator event.
func (e *Env) CancelCall(c *Call) {
	c.mu.Lock()
	c.Cancelled = true
	c.CancelAt = e.Phase()
	c.mu.Unlock()
	c.Cancel()
}

// QueryOpt builds a Uri-Query option "n=<nonce>".
func QueryOpt(nonce int) message.Option {
	return message.Option{ID: message.URIQuery, Value: []byte(fmt.Sprintf("n=%d", nonce))}
}

// ParseNonce extracts <nonce> from a "n=<nonce>" Uri-Query; -1 if absent.
func ParseNonce(m *WMsg) int {
	for _, q := range m.OptAll(OptURIQuery) {
		var n int
		if _, err := fmt.Sscanf(string(q), "n=%d", &n); err == nil {
			return n
		}
	}
	return -1
}

// Body returns position-dependent pseudo-random bytes (never all zeros) for a nonce.
func Body(nonce, size int) []byte {
	b := make([]byte, size)
	s := uint64(nonce)*0x9e3779b97f4a7c15 + 12345
	for i := range b {
		if i%8 == 0 {
			_ = splitmix64(&s)
		}
		b[i] = byte(s>>(8*(i%8))) | 1
	}
	return b
}

// CheckHeld verifies that the content of a held message still equals its snapshot (C12.R3) and is not poison (C12.R5).
func (p *PoolTracker) CheckHeld(m *pool.Message, snap *RespInfo) {
	if !p.Enabled {
		return
	}
	now := Snapshot(m)
	if !now.Equal(snap) {
		p.env.Violate("C12.R3", "held-content-changed", "content of held message changed: was %s now %s", snap, now)
	}
	if now.Code == byte(poisonCode) && now.MID == poisonMID {
		p.env.Violate("C12.R5", "poison-handed-over", "poisoned (released) message content handed to the application: %s", now)
	}
}

// CheckHandover verifies that what is handed to the application is not the poisoned content of a released message (C12.R5).
func (p *PoolTracker) CheckHandover(snap *RespInfo, what string) {
	if !p.Enabled || snap == nil {
		return
	}
	if snap.Code == byte(poisonCode) && snap.MID == poisonMID {
		p.env.Violate("C12.R5", "poison-handed-over", "%s carries the poison of a released message: %s", what, snap)
	}
}

// HoldWhile marks m as held by the application for the duration of f and checks that it did not change meanwhile.
func (p *PoolTracker) HoldWhile(m *pool.Message, who string, f func()) {
	if !p.Enabled || m == nil {
		f()
		return
	}
	p.Hold(m, who)
	snap := Snapshot(m)
	p.CheckHandover(snap, who)
	f()
	p.CheckHeld(m, snap)
	p.Unhold(m)
}

// CheckWire verifies that a message seen on the wire is not the poisoned content of a released message (C12.R5).
// CheckWireRaw looks at a datagram the endpoint put on the wire before anybody tries to parse it: the poison written
// into the marshal buffer of a released message starts with (any first byte), code 0xFD, message ID 0x6b6b.
func (p *PoolTracker) CheckWireRaw(b []byte) {
	if !p.Enabled || len(b) < 4 {
		return
	}
	if b[1] == byte(poisonCode) && b[2] == byte(poisonMID>>8) && b[3] == byte(poisonMID&0xff) {
		p.env.Violate("C12.R5", "poison-on-the-wire", "a datagram that starts with the poison of a released pooled message's marshal buffer was put on the wire: % x", b[:min(len(b), 16)])
	}
}

func (p *PoolTracker) CheckWire(m *WMsg) {
	if !p.Enabled || m == nil {
		return
	}
	if m.Code == byte(poisonCode) && (m.MID == uint16(poisonMID) || len(m.Token) == 0) {
		p.env.Violate("C12.R5", "poison-on-the-wire", "a message with the poison of a released pooled message was put on the wire: %s", m)
	}
}
