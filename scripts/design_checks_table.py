#!/usr/bin/env python3
"""Regenerates the per-check table of DESIGN.md 0.1 (between BEGIN/END CHECKS TABLE markers) from evidence/*.json and sim/*.go."""
import json, glob, re
thor = {}
for f in glob.glob('/verif/sim/*.go'):
    s = open(f).read()
    for m in re.finditer(r'ID:\s+"(C\d+)".*?Quick:\s+([^,\n]+),\s+Thorough:\s+([^,\n]+),', s, re.S):
        env = {"c20Table": 3 * 4 * 256 * 256}
        thor[m.group(1)] = (int(eval(m.group(2), {}, env)), int(eval(m.group(3), {}, env)))
rows = []
for f in sorted(glob.glob('/verif/evidence/C*.json')):
    e = json.load(open(f))
    pid = e['property_id']
    cov = e['coverage']
    sc = ', '.join(sorted(cov.get('scenarios', {}).keys()))
    q, t = thor.get(pid, (0, 0))
    rows.append(f"| {pid} | {sc} | {q} / {t} | {len(cov.get('required_conditions', []))} |")
table = "| check | scenarios (a run draws one by weight) | runs quick / thorough | required conditions |\n|---|---|---|---|\n" + "\n".join(rows)
p = '/verif/DESIGN.md'
s = open(p).read()
s = re.sub(r'<!-- BEGIN CHECKS TABLE -->.*?<!-- END CHECKS TABLE -->', '<!-- BEGIN CHECKS TABLE -->\n' + table + '\n<!-- END CHECKS TABLE -->', s, flags=re.S)
open(p, 'w').write(s)
print(len(rows), 'rows')
