#!/usr/bin/env python3
"""Runs the registered quick checks against every seeded change (git -C /repo apply, check, git checkout).
usage: run_seeded.py [--tier quick|thorough] [id ...]     writes seeded/results.json and updates each meta.json
A seeded change is 'caught' when the check of its own property exits 1 with a VIOLATION line that is not a known finding."""
import json, os, re, subprocess, sys, glob
tier = "quick"
args = sys.argv[1:]
if args[:1] == ["--tier"]:
    tier = args[1]; args = args[2:]
EXTRA = {"C07-m1": ["C04"], "C03-m2": ["C05"], "C09-m2": ["C11"], "C11-m4": ["C07"], "C10-m4": ["C18"], "C12-m4": ["C05"], "C04-m4": ["C03"], "C03-m6": ["C12"], "C06-m6": ["C05", "C12"], "C12-m5": ["C14"], "C16-m5": ["C14"], "C09-m6": ["C10"], "C20-m5": ["C17"], "C17-m5": ["C20"]}
def sh(cmd, cwd=None):
    p = subprocess.run(cmd, shell=True, cwd=cwd, capture_output=True, text=True)
    return p.returncode, p.stdout + p.stderr
rc, out = sh("git diff --quiet", "/repo")
if rc != 0:
    print("/repo is dirty"); sys.exit(2)
results = {}
rp = "/verif/seeded/results.json"
if os.path.exists(rp):
    results = json.load(open(rp))
dirs = sorted(glob.glob("/verif/seeded/C*-m*"))
for d in dirs:
    mid = os.path.basename(d)
    if args and mid not in args:
        continue
    meta = json.load(open(d + "/meta.json"))
    props = [meta["property"]] + EXTRA.get(mid, [])
    rc, out = sh(f"git apply {d}/patch.diff", "/repo")
    if rc != 0:
        print(mid, "PATCH DOES NOT APPLY", out[-200:]); continue
    checks = {}
    try:
        for p in props:
            # first a prefix of the tier's run indices (same seed, same tapes: a violation found there is found by the
            # full tier as well); the full tier only when the prefix is clean
            rc, out = sh(f"/verif/bin/verif check {p} --tier {tier} --runs 30000")
            full = False
            if rc != 1:
                full = True
                rc, out = sh(f"/verif/bin/verif check {p} --tier {tier}")
            rules = sorted(set(re.findall(r'^\s+rule=(\S+) sig=(\S+)', out, re.M)))
            checks[p] = {"tier": tier, "runs": "all" if full else "first 30000 of the tier", "exit": rc, "caught": rc == 1, "rules": [f"{r} [{s}]" for r, s in rules][:8]}
            print(mid, p, "exit", rc, [f"{r} [{s}]" for r, s in rules][:3], flush=True)
    finally:
        sh("git checkout -- .", "/repo")
    meta["checks"] = checks
    json.dump(meta, open(d + "/meta.json", "w"), indent=1)
    results[mid] = checks
json.dump(results, open(rp, "w"), indent=1, sort_keys=True)
own = {m: c for m, c in results.items()}
missed = [m for m, c in own.items() if not c.get(m.split("-")[0], {}).get("caught")]
print("seeded changes:", len(own), "caught by the check of their own property:", len(own) - len(missed), "missed:", missed)
