#!/usr/bin/env python3
"""Confirms sub-agent mutants in a scratch worktree: demo passes on HEAD, fails with the patch,
the module builds and the existing suite (minus the two always-failing ./net tests) passes with the patch.
usage: confirm_mutants.py <scratch-worktree> <mutant-dir>...   -> one JSON line per mutant on stdout"""
import json, os, re, subprocess, sys, shutil

WT = sys.argv[1]
ALWAYS_FAIL = {"TestUDPConnWriteToAddr", "TestUDPConnWriteWithContext"}

def sh(cmd, cwd=WT, timeout=1500):
    p = subprocess.run(cmd, shell=True, cwd=cwd, capture_output=True, text=True, timeout=timeout)
    return p.returncode, p.stdout + p.stderr

def reset():
    sh("git checkout -- . && git clean -fdq")

for md in sys.argv[2:]:
    res = {"mutant": md}
    try:
        demo = os.path.join(md, "demo_test.go")
        src = open(demo).read()
        head = "\n".join(src.split("\n")[:25])
        cands = [c for c in re.findall(r'[A-Za-z0-9_./-]+_test\.go', head) if "_mutants" not in c]
        target = None
        for c in cands:
            c = re.sub(r'^/tmp/w[t234]_C\d+/', '', c).lstrip('/')
            if '/' in c and os.path.basename(c) not in ("server_test.go", "client_test.go", "observe_test.go", "blockwise_test.go"):
                target = c
                break
        if not target:
            # a demo that belongs into the repository root (package of the module itself)
            stripped = [re.sub(r'^/tmp/w[t234]_C\d+/', '', c).lstrip('/') for c in cands]
            bare = [c for c in stripped if '/' not in c and c != "demo_test.go"]
            if bare:
                target = os.path.basename(bare[0])
        if not target:
            res["error"] = "no target path found in demo header"
            print(json.dumps(res)); continue
        tests = re.findall(r'^func (Test[A-Za-z0-9_]+)', src, re.M)
        run = "^(" + "|".join(tests) + ")$"
        pkg = "./" + os.path.dirname(target) + "/" if os.path.dirname(target) else "./"
        res.update(target=target, tests=tests)
        reset()
        shutil.copy(demo, os.path.join(WT, target))
        rc0, out0 = sh(f"go test -mod=mod -vet=off -count=1 -timeout 300s -run '{run}' {pkg}")
        res["demo_on_head"] = "pass" if rc0 == 0 else "FAIL"
        rc, out = sh(f"git apply {md}/patch.diff")
        if rc != 0:
            res["error"] = "patch does not apply: " + out[-300:]
            print(json.dumps(res)); reset(); continue
        rcb, outb = sh("go build -mod=mod ./...")
        res["build"] = "ok" if rcb == 0 else "FAIL"
        rc1, out1 = sh(f"go test -mod=mod -vet=off -count=1 -timeout 300s -run '{run}' {pkg}")
        res["demo_with_patch"] = "pass" if rc1 == 0 else "fail"
        os.remove(os.path.join(WT, target))
        rcs, outs = sh("go test -mod=mod -vet=off -count=1 -timeout 25m ./...")
        failed = set(re.findall(r'^--- FAIL: (Test[A-Za-z0-9_]+)', outs, re.M)) - ALWAYS_FAIL
        if failed:
            # one retry of the packages that failed (port clashes / timing under load)
            pk = set(re.findall(r'^FAIL\s+(github.com/plgd-dev/go-coap/v3\S*)', outs, re.M))
            still = set()
            for p in pk:
                rel = "./" + p.replace("github.com/plgd-dev/go-coap/v3", "").lstrip("/")
                r2, o2 = sh(f"go test -mod=mod -vet=off -count=1 -timeout 25m {rel}/")
                still |= set(re.findall(r'^--- FAIL: (Test[A-Za-z0-9_]+)', o2, re.M)) - ALWAYS_FAIL
            failed = still
        res["suite_with_patch"] = "pass" if not failed else "FAIL: " + ",".join(sorted(failed))
        res["kept"] = (res["demo_on_head"] == "pass" and res["demo_with_patch"] == "fail" and res["build"] == "ok" and res["suite_with_patch"] == "pass")
    except Exception as ex:
        res["error"] = repr(ex)
    reset()
    print(json.dumps(res), flush=True)
