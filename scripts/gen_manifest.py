#!/usr/bin/env python3
"""Regenerates /verif/MANIFEST.json from the table below (kept in one place so it is always valid)."""
import json, subprocess

NA = {
 "C01": "pure function of one message and one buffer (encode/size/decode): no schedule, clock, fault or interleaving to simulate; needs property-based/differential testing or proof, which is outside this technique (DESIGN.md 1)",
 "C02": "decoder totality and agreement with a reference parser is a pure function of a byte string; no schedule/clock/fault dimension (DESIGN.md 1). By-product only: C10's corrupting network feeds mutated bytes to live decoders",
 "C15": "message.Options / pooled-message builder are sequential single-owner data structures; 'histories' are operation sequences of one caller without concurrency, time or I/O (DESIGN.md 1)",
 "C19": "block option codec is a total function on a 2^24/2^32 domain: enumerate it, do not simulate it (DESIGN.md 1)",
}

# id -> (design_ref, level text, level note, technique)
CLAIMED = {}

def claim(pid, ref, text, note, tech):
    CLAIMED[pid] = (ref, text, note, tech)

exec(open('/verif/scripts/claims.py').read())

PENDING = "check not built yet in this round (DESIGN.md 5 describes the planned simulation); not claimed until it runs green on the unchanged tree"

props = [json.loads(l) for l in open('/verif/properties.jsonl')]
checks, na = [], []
for p in props:
    pid = p['id']
    if pid in CLAIMED:
        ref, text, note, tech = CLAIMED[pid]
        checks.append({
            "property_id": pid,
            "quick_cmd": f"/verif/bin/verif check {pid} --tier quick",
            "thorough_cmd": f"/verif/bin/verif check {pid} --tier thorough",
            "evidence_file": f"/verif/evidence/{pid}.json",
            "replay_cmd_template": "/verif/bin/verif replay {path}",
            "engine": "coapsim",
            "level_claimed": {"category": "exploration", "text": text, "design_ref": ref},
            "level_note": note,
            "technique": tech,
        })
    else:
        na.append({"property_id": pid, "reason": NA.get(pid, PENDING)})

hooks = subprocess.run(['git','-C','/repo','log','--format=%H %s','138f36b..HEAD'],capture_output=True,text=True).stdout.strip().split('\n')
hook_commits = [l.split()[0] for l in hooks if 'verif hook' in l]

m = {
 "version": 1,
 "setup_cmd": "cd /verif/cmd/verif && GOFLAGS=-mod=mod GOPROXY=off GOSUMDB=off GOTOOLCHAIN=local CGO_ENABLED=0 go1.26.8 build -o /verif/bin/verif . && /verif/bin/verif build",
 "hooks": {
  "guard": "verif",
  "enable": "Go build tag: the checks run `go1.26.8 test -c -tags verif` on /verif/sim (replace => /repo), i.e. they rebuild from /repo's working tree with the hooks on",
  "baseline_off_cmd": "/verif/scripts/baseline_off.sh",
  "source_commits": hook_commits,
  "add_only": True,
 },
 "engines": [{
  "name": "coapsim", "path": "/verif/sim", "serves_properties": sorted(CLAIMED),
  "kind_free_text": "deterministic simulation with fault injection: one seeded tape per run decides every event, delay, fault and park; testing/synctest fake clock + quiescence; simulated datagram and stream networks under the real connection/session/server code; scripted peers; reference-model and history oracles; tape shrinking; exact replay",
 }],
 "checks": checks,
 "notes": "Exit codes of every check: 0 held on everything explored (KNOWN-FINDING lines for entries of /verif/known_findings.json), 1 + 'VIOLATION property=<id> replay=<path>' for anything else, 2 for build/watchdog/harness trouble. VERIF_SEED and VERIF_TIER are honoured. See DESIGN.md.",
 "not_applicable": na,
}
json.dump(m, open('/verif/MANIFEST.json','w'), indent=1)
print("claimed:", sorted(CLAIMED), "not claimed:", [x['property_id'] for x in na])
