#!/usr/bin/env python3
"""record_fix.py <Fnn> <property> <rule> <sig> <commit> <what> <subject>  - appends a fixed entry to known_findings.json and a row to DESIGN 0.4"""
import json, sys
f, prop, rule, sig, commit, what, subject = sys.argv[1:8]
d = json.load(open('/verif/known_findings.json'))
d.append({"property": prop, "rule": rule, "sig": sig, "status": "fixed", "commit": commit, "what": "fixed: property=%s %s %s" % (prop, commit, what)})
json.dump(d, open('/verif/known_findings.json', 'w'), indent=1)
p = '/verif/DESIGN.md'
s = open(p).read()
marker = '| F10 | C18 | keep-alive reset its failure counter'
row = "| %s | %s | %s | %s |\n" % (f, prop, what.replace('|', '/'), subject)
assert marker in s
open(p, 'w').write(s.replace(marker, row + marker, 1))
