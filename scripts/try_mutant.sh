#!/bin/sh
# usage: try_mutant.sh <patch.diff> <property-id>...  : applies the patch to /repo, runs the quick checks, reverts.
patch=$1; shift
cd /repo || exit 2
git diff --quiet || { echo "/repo is dirty"; exit 2; }
git apply "$patch" || { echo "patch does not apply"; exit 2; }
for id in "$@"; do
  out=$(/verif/bin/verif check $id --tier quick 2>&1); code=$?
  echo "[$id] exit=$code $(echo "$out" | grep -E "^$id quick:" | sed 's/sim_time.*violations/violations/')"
  echo "$out" | grep -A1 "^VIOLATION" | grep -v "^--" | cut -c1-230 | head -6
  echo "$out" | grep -E "HARNESS TROUBLE|BUILD FAILED" | head -3
done
git checkout -- . 
