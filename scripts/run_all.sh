#!/bin/sh
# Runs every claimed check of MANIFEST.json at the given tier (default quick); prints one summary line per check.
tier=${1:-quick}
rc=0
for id in $(python3 -c "import json;print(' '.join(c['property_id'] for c in json.load(open('$(dirname $0)/../MANIFEST.json'))['checks']))"); do
  $(dirname $0)/../bin/verif check $id --tier $tier > /tmp/verif_$id.out 2>&1
  code=$?
  echo "exit=$code $(grep -E "^$id (quick|thorough):" /tmp/verif_$id.out | tail -1)"
  grep -E "^VIOLATION|HARNESS TROUBLE|BUILD FAILED" /tmp/verif_$id.out | head -5
  [ $code -ne 0 ] && rc=1
  rm -f /tmp/verif_$id.out
done
exit $rc
