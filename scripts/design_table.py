#!/usr/bin/env python3
"""Regenerates the seeded-changes table of DESIGN.md (between the BEGIN/END SEEDED TABLE markers) from seeded/*/meta.json."""
import json, glob, re
rows = []
for d in sorted(glob.glob('/verif/seeded/C*-m*')):
    m = json.load(open(d + '/meta.json'))
    own = m.get('checks', {}).get(m['property'], {})
    rules = '; '.join(own.get('rules', [])[:2])
    extra = [f"{k}: {'caught' if v['caught'] else 'not caught'}" for k, v in m.get('checks', {}).items() if k != m['property']]
    summ = m['summary']
    for sep in (' - ', ' – ', ' — '):
        if sep in summ:
            summ = summ.split(sep, 1)[1]
            break
    summ = summ.replace('|', '/')
    if m.get('same_change_as'):
        summ = '(same change as ' + m['same_change_as'] + ') ' + summ
    if len(summ) > 150:
        summ = summ[:147] + '...'
    rows.append(f"| {m['id']} | {m.get('wave', 1)} | {summ} | {'caught' if own.get('caught') else 'MISSED'}: {rules} | {', '.join(extra)} |")
table = "| change | wave | what it does | quick check of its property | other checks |\n|---|---|---|---|---|\n" + "\n".join(rows)
p = '/verif/DESIGN.md'
s = open(p).read()
s = re.sub(r'<!-- BEGIN SEEDED TABLE -->.*?<!-- END SEEDED TABLE -->', '<!-- BEGIN SEEDED TABLE -->\n' + table + '\n<!-- END SEEDED TABLE -->', s, flags=re.S)
open(p, 'w').write(s)
print(len(rows), "rows")
