#!/usr/bin/env python3
"""Copies the sub-agents' confirmed mutants from their scratch worktrees into /verif/seeded/<id>/.
usage: seed_mutants.py <confirm.jsonl>..."""
import json, os, re, shutil, sys
conf = {}
for f in sys.argv[1:]:
    for l in open(f):
        try:
            o = json.loads(l)
        except Exception:
            continue
        conf[o["mutant"]] = o
for md, c in sorted(conf.items()):
    if not c.get("kept"):
        print("skip (not confirmed)", md); continue
    m = re.search(r'wt_(C\d+)/_mutants/(m\d+)', md) or re.search(r'seeded/(C\d+)-(m\d+)', md)
    wave = 1
    if m:
        prop, mid = m.group(1), m.group(2)
    else:
        m = re.search(r'w([234])_(C\d+)/_mutants/m(\d+)', md)  # second wave: m1, m2 -> m3, m4; third: m5, m6; fourth: m7..m9
        wave = int(m.group(1))
        prop, mid = m.group(2), "m%d" % (int(m.group(3)) + 2 * (wave - 1))
    out = f"/verif/seeded/{prop}-{mid}"
    os.makedirs(out, exist_ok=True)
    for fn in ("patch.diff", "demo_test.go", "README.md"):
        if os.path.abspath(md) == os.path.abspath(out):
            break
        if os.path.exists(os.path.join(md, fn)) and not (fn == "patch.diff" and os.path.exists(os.path.join(out, "patch.rebased"))):
            shutil.copy(os.path.join(md, fn), os.path.join(out, fn))
    c["at_commit"] = c.get("at_commit") or os.environ.get("CONFIRMED_AT", "")
    readme = open(os.path.join(md, "README.md")).read() if os.path.exists(os.path.join(md, "README.md")) else ""
    title = readme.strip().split("\n")[0].lstrip("# ").strip()
    needs = ""
    secs = re.split(r'^##+\s*', readme, flags=re.M)
    for s in secs:
        h = s.split("\n")[0].lower()
        if "needed" in h or "manifest" in h or "needs" in h:
            needs = "\n".join(s.split("\n")[1:]).strip()
            break
    meta = {
        "id": f"{prop}-{mid}",
        "property": prop,
        "wave": old_wave if (old_wave := (json.load(open(os.path.join(out, "meta.json"))).get("wave") if os.path.exists(os.path.join(out, "meta.json")) else None)) else (wave if wave > 1 else (2 if mid in ("m3", "m4") else 3 if mid in ("m5", "m6") else 4 if mid in ("m7", "m8", "m9") else 1)),
        "summary": title,
        "needs_to_manifest": needs,
        "demonstration": {"file": "demo_test.go", "copy_to": c.get("target"), "tests": c.get("tests")},
        "confirmed_by_me": {
            "how": "scripts/confirm_mutants.py in a scratch worktree of /repo (removed afterwards): demo on the unchanged tree, git apply patch.diff, go build ./..., demo again, then the whole existing suite with the patch (go test -mod=mod -vet=off -count=1 ./..., the two ./net tests that fail in this sandbox on the unchanged tree too are ignored)",
            "repo_commit": c.get("at_commit"),
            "demo_on_unchanged_tree": c.get("demo_on_head"), "build_with_patch": c.get("build"),
            "demo_with_patch": c.get("demo_with_patch"), "existing_suite_with_patch": c.get("suite_with_patch"),
        },
    }
    old = {}
    mp = os.path.join(out, "meta.json")
    if os.path.exists(mp):
        old = json.load(open(mp))
    for k in ("checks", "notes"):
        if k in old:
            meta[k] = old[k]
    json.dump(meta, open(mp, "w"), indent=1)
    print("seeded", out)
