#!/bin/sh
# Runs the repository's own test suite with the verif guard OFF (no build tag)
# exactly as BASELINE.json does.
cd /repo && go test -mod=mod -json -vet=off -count=1 -timeout 25m ./...
