claim("C06", "DESIGN.md 5 C06, A.3",
 "Seeded search (tens of thousands to millions of simulated runs) over loss/duplication/reorder patterns, peer reply policies, tick timings and (ACK_TIMEOUT, MAX_RETRANSMIT, NSTART) settings against the real udp/client.Conn + Session + UDPConn over a simulated network with a fake clock; every client transmission is judged against a reference retransmission model. Evidence, not proof: sampled, with replayable minimised counterexamples.",
 "Trusts: Go's testing/synctest fake clock and quiescence detection; the harness's own 150-line CoAP codec; replicated udp.Client wiring (40 lines); ticks are given the simulated wall clock. 'Not exhausted' is judged conservatively (see evidence.assumptions).",
 "deterministic simulation: seeded fault/schedule search with reference retransmission model over the write log")

claim("C14", "DESIGN.md 5 C14, A.6",
 "Seeded walks over interleavings (at critical-section granularity, via named yield points inside pkg/sync.Map and pkg/cache) of 2-3 tasks x 1-3 operations of the full API on 1-2 keys, with fake-time advances as events; each recorded history is decided by porcupine against a sequential map-with-expiry model. Sampled exploration of a small space (the quick tier already revisits most 2x2 shapes many times); evidence, not proof.",
 "Trusts porcupine v1.3.0 and the 150-line sequential model; interleavings finer than the yield points (inside a critical section) are not explored; Range is modelled as one Visit sub-operation per callback, the sweep as one SweepKey sub-operation per removed key.",
 "deterministic simulation: cooperative seeded scheduler over yield points + porcupine linearizability check of the recorded history")

claim("C16", "DESIGN.md 5 C16, A.5",
 "Seeded search over orders of {arrive, cancel, finish, resume-of-a-parked-caller} for up to 5 requests on 1-2 paths with limits 1-3, on the real LimitParallelRequests with a gate-controlled do(); every quiescent point is compared with a per-path reference model (in-flight set, FIFO of waiters), limits are checked as bounds, and idleness (empty queues, immediate admission of a fresh request) at the end. Sampled exploration of a small space; evidence, not proof.",
 "Trusts the 40-line reference model; the cross-path total limit is checked as a bound / end-state only; a caller cancelled while parked before its select has two legal outcomes (run marked racy, order rule not applied).",
 "deterministic simulation: seeded event-order search with park points, per-phase comparison against a FIFO limiter model")

claim("C05", "DESIGN.md 5 C05, A.2",
 "Seeded search over duplication / reordering / loss patterns of CON and NON requests with copies re-sent around 0, ACK_TIMEOUT and the 247 s lifetime boundary (+-1 ns / 1 ms) on a fake clock, message IDs incl. the endpoint's own outgoing IDs, three handler behaviours, concurrent client-role traffic, and copies delivered while the first is held inside the per-message-ID section (park point + reader-loop replacement), on the real udp/client.Conn + Session + UDPConn. Handler executions and the replies on the wire are judged against a MID -> (first seen, first reply) reference model at the end of each run. Evidence, not proof.",
 "Trusts synctest's fake clock, the harness codec and model; exactly-at-boundary copies are accepted either way; the boundary is probed only with instantaneous handlers; one peer address per run (per-peer separation of the cache is exercised by C10).",
 "deterministic simulation: seeded fault/time search with de-duplication reference model over handler log and wire replies")

claim("C07", "DESIGN.md 5 C07",
 "Seeded search over generated message sequences (every length-nibble class, token lengths 0-8, ordinary/response/signalling codes, optionally one oversize frame incl. 32-bit extended-length boundary values) x segmentations of the byte stream chosen by the tape (single bytes, cuts inside headers, many frames per read) x read-buffer sizes, against the real tcp.Client + tcp/client.Session + net.Conn over a simulated stream (plain and TLS shim). The handler log is compared with the sent sequence; for an oversize frame the body is withheld and the connection must already be closed. Evidence, not proof.",
 "Trusts the harness's own RFC 8323 codec; frames in the grey zone between 'options+payload <= max' and 'whole frame <= max' are not generated; messages supplied in the same read as the oversize header may die with the connection (both outcomes accepted, run marked racy).",
 "deterministic simulation: seeded segmentation/sequence search with exact-delivery oracle on the handler log")

claim("C03", "DESIGN.md 5 C03, A.1",
 "Seeded search over caller counts, request mixes (Get/Delete/Do, CON and NON, caller-chosen and re-used tokens), answer orders/delays/duplications, piggybacked vs separate answers, forged answers, stream segmentation and park points around token registration, on one real connection per run over UDP (real Session + UDPConn), DTLS (real dtls Session over an ideal record layer), TCP and TLS shim (real tcp.Client), block-wise on/off, limiter off/1/2. Every return is checked for own token and own content; colliding tokens are judged on the wire; answered requests must complete. Evidence, not proof.",
 "Trusts the harness codec and scripted peer; pion/dtls and crypto/tls are replaced by ideal record layers in this check; separate responses are emitted only after their ACK (C06 owns the other order); a token is re-used at most once per run and network duplicates of answers carrying a re-used token are dropped (they are indistinguishable from the new answer).",
 "deterministic simulation: seeded schedule/fault search with token-demultiplexing oracle over call returns and wire log")

claim("C08", "DESIGN.md 5 C08, A.4",
 "Seeded search over notification histories (sequence numbers around 0, 2^23, 2^24-1; permuted, duplicated; inter-arrival times aimed at the 128 s window +-1 ns/1 ms on a fake clock), registration answers (2.05/2.03/4.04/5.00/no Observe option), 1-3 simultaneous observations, cancellation at any point and notifications for cancelled / failed / unknown tokens, on one real connection per run (UDP, DTLS shim, TCP, TLS shim). The callback log is compared after every event with an RFC 7641 3.4 reference model (plus message-ID de-duplication of confirmable copies on datagram transports). Evidence, not proof.",
 "Trusts the harness codec and the 30-line freshness model; notifications handed over while Observe or Cancel is still in progress are accepted either way; no notifications after a 2.05 without Observe option; block-wise notifications are C04's business.",
 "deterministic simulation: seeded history/time search with RFC 7641 freshness reference model over the callback log")

claim("C20", "DESIGN.md 5 C20",
 "The finite table {UDP CON, UDP NON, DTLS CON, TCP} x No-Response value 0..255 (every value the one-byte option can carry) x response code 0..255 is ENUMERATED COMPLETELY (262144 simulated runs) through a real server-side connection whose handler calls SetResponse(code), with a network duplicate of the request on datagram transports; refusal and the messages on the wire are compared with a specification function written from RFC 7967. Exhaustive over the table; nothing beyond the table is claimed.",
 "Trusts the harness codec and the 3-line specification function; pion/dtls replaced by an ideal record layer; option values longer than one byte cannot reach a handler (the decoder drops them) and are out of scope.",
 "deterministic simulation used as an exhaustive enumerator of a finite table through a simulated connection (schedule-independent)")

claim("C18", "DESIGN.md 5 C18, A.7",
 "Seeded search over histories of {message received, pong for the current ping, late pong for a superseded ping, tick at time t} with tick spacings aimed at the period boundary (exactly the period, +-1 ns), several ticks per period, late ticks, +300 s jumps and stale 'now' values on a fake clock, for the real inactivity monitor and keep-alive wired through options.WithInactivityMonitor / WithKeepAlive on a real client connection (UDP, DTLS shim, TCP, TLS shim). After every tick the connection state and the pings on the wire are compared with a reference model (last receive time, consecutive detections). Evidence, not proof.",
 "Trusts the 40-line reference model and the harness codec; client-side connections only in this scenario (server-side tick paths run in C10's scenarios); a late pong for a superseded ping is accepted as reset or not.",
 "deterministic simulation: seeded history/time search with monitor reference model checked at every tick")

claim("C11", "DESIGN.md 5 C11",
 "Seeded search over interleavings of message arrival with handlers that return at once or block in a nested operation on the same connection (request, observe registration, observation cancel, ping, confirmable one-way write; nesting depth grows with the number of blocked handlers), receive-queue sizes 0/1/16, all four transports, duplicates of a request that is still inside its handler, park points inside the reader-loop replacement protocol, and connection close at any point. Dispatch counts, order (when nothing blocked) and 'a nested operation returns at the quiescent point after its answer was delivered' are checked. Evidence, not proof.",
 "Reader-loop replacement makes most runs racy (two loops, multi-ready selects): oracles accept every runtime choice, replay of a racy violation retries up to 8 times; completeness is only demanded when the connection stays open.",
 "deterministic simulation: seeded arrival/answer/park schedule search with exactly-once and progress-while-nested oracles")
