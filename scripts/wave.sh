#!/bin/sh
# usage: wave.sh <wave-number> [property...] : runs the quick check of its property against every change of that wave
# that sits in /tmp/w<N>_<id>/_mutants/m*/patch.diff (apply to /repo, check, revert), 15 min limit each.
n=$1; shift
ids=${*:-C03 C04 C05 C06 C07 C08 C09 C10 C11 C12 C13 C14 C16 C17 C18 C20}
for id in $ids; do
  for d in /tmp/w${n}_$id/_mutants/m*; do
    [ -f "$d/patch.diff" ] || continue
    echo "=== $id $(basename $d)"
    timeout 900 /verif/scripts/try_mutant.sh $d/patch.diff $id 2>&1 | grep -v "^  rule" | cut -c1-170 | head -4
    (cd /repo && git checkout -- . 2>/dev/null)
  done
done
